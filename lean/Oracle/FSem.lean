import Oracle.Sexp
/-
Reference evaluator for the abstract Folang programs of the C01 generator (harness/fcdrv/gen.go):
strict, left-to-right, lexically scoped big-step semantics with an output trace.
  * only the taken branch of if / match is evaluated; `&&` / `||` evaluate the right operand only
    when needed; a match dispatches on the constructor the value was built with;
  * a call evaluates its arguments left to right, then the body; an under-applied call is a partial
    application value (its given arguments are evaluated at application time);
  * `x |> f` evaluates x, then f, then applies; library calls evaluate their arguments in order and
    then iterate left to right.
Stream `c01.prog`: ((fun name (params) body)…) entry  →  x<hex of stdout> | (stuck reason)
-/
namespace Oracle.FSem
open Oracle

inductive Val where
  | int (i : Int)
  | str (s : String)
  | bool (b : Bool)
  | unit
  | tup (a b : Val)
  | slice (xs : List Val)
  | record (name : String) (fields : List (String × Val))
  | uni (case : String) (payload : List Val)          -- [] or [v]
  | clo (params : List String) (body : Sx) (env : List (String × Val))
  | pap (fname : String) (args : List Val)
deriving Inhabited

abbrev Env := List (String × Val)

partial def Val.beq : Val → Val → Bool
  | .int a, .int b => a == b
  | .str a, .str b => a == b
  | .bool a, .bool b => a == b
  | .unit, .unit => true
  | .tup a b, .tup c d => Val.beq a c && Val.beq b d
  | .slice xs, .slice ys => xs.length == ys.length && (xs.zip ys).all (fun p => Val.beq p.1 p.2)
  | .record n fs, .record m gs => n == m && fs.length == gs.length && (fs.zip gs).all (fun p => p.1.1 == p.2.1 && Val.beq p.1.2 p.2.2)
  | .uni c p, .uni d q => c == d && p.length == q.length && (p.zip q).all (fun x => Val.beq x.1 x.2)
  | _, _ => false

def display : Val → String
  | .int i => toString i
  | .str s => s
  | .bool b => if b then "true" else "false"
  | _ => "?"

/-- fmt.Sprintf with one argument, for the formats the generator uses (%d %v %s once) -/
def format1 (fmt : String) (v : Val) : String :=
  let rec go : List Char → List Char
    | '%' :: c :: rest => if c == 'd' || c == 'v' || c == 's' then (display v).toList ++ rest else '%' :: c :: go rest
    | c :: rest => c :: go rest
    | [] => []
  String.ofList (go fmt.toList)

structure Prog where
  funs : List (String × List String × Sx)

def Prog.find (p : Prog) (name : String) : Option (List String × Sx) :=
  (p.funs.find? (·.1 == name)).map (·.2)

abbrev M := StateT String (Except String)

def emit (s : String) : M Unit := modify (· ++ s)
def stuck {α : Type} (why : String) : M α := throw why

def lookup (env : Env) (x : String) : M Val :=
  match env.find? (·.1 == x) with
  | some (_, v) => pure v
  | none => stuck ("unbound " ++ x)

def strOf (x : Sx) : String := match x with
  | .atom s => (Sx.decStr s).getD ""
  | _ => ""

mutual
partial def eval (p : Prog) (env : Env) (e : Sx) : M Val :=
  match e with
  | .list [.atom "int", n] => pure (.int ((Sx.asInt n).getD 0))
  | .list [.atom "str", s] => pure (.str (strOf s))
  | .list [.atom "bool", .atom b] => pure (.bool (b == "true"))
  | .list [.atom "unit"] => pure .unit
  | .list [.atom "var", .atom x] => lookup env x
  | .list [.atom "bin", .atom op, a, b] => do
    let va ← eval p env a
    if op == "&&" then
      match va with
      | .bool false => pure (.bool false)
      | _ => eval p env b
    else if op == "||" then
      match va with
      | .bool true => pure (.bool true)
      | _ => eval p env b
    else
      let vb ← eval p env b
      match op, va, vb with
      | "+", .int x, .int y => pure (.int (x + y))
      | "-", .int x, .int y => pure (.int (x - y))
      | "*", .int x, .int y => pure (.int (x * y))
      | "/", .int x, .int y => if y == 0 then stuck "division by zero" else pure (.int (Int.tdiv x y))
      | "+", .str x, .str y => pure (.str (x ++ y))
      | "<", .int x, .int y => pure (.bool (x < y))
      | ">", .int x, .int y => pure (.bool (x > y))
      | "<=", .int x, .int y => pure (.bool (x ≤ y))
      | ">=", .int x, .int y => pure (.bool (x ≥ y))
      | "=", x, y => pure (.bool (Val.beq x y))
      | "<>", x, y => pure (.bool (!Val.beq x y))
      | _, _, _ => stuck ("bin " ++ op)
  | .list [.atom "not", a] => do
    match ← eval p env a with
    | .bool b => pure (.bool (!b))
    | _ => stuck "not"
  | .list [.atom "if", c, t, f] => do
    match ← eval p env c with
    | .bool true => eval p env t
    | .bool false => eval p env f
    | _ => stuck "if"
  | .list [.atom "ifonly", c, t] => do
    match ← eval p env c with
    | .bool true => do let _ ← eval p env t; pure .unit
    | .bool false => pure .unit
    | _ => stuck "ifonly"
  | .list [.atom "block", .list stmts, fin] => do
    let mut env' := env
    for s in stmts do
      match s with
      | .list [.atom "let", .atom x, rhs] =>
        let v ← eval p env' rhs
        env' := (x, v) :: env'
      | .list [.atom "let2", .atom x, .atom y, rhs] =>
        match ← eval p env' rhs with
        | .tup a b => env' := (y, b) :: (x, a) :: env'
        | _ => stuck "let2"
      | .list [.atom "do", rhs] => let _ ← eval p env' rhs
      | _ => stuck "stmt"
    eval p env' fin
  | .list (.atom "call" :: .atom f :: ar :: args) => do
    let vs ← args.mapM (eval p env)
    let arity := (Sx.asNat ar).getD 0
    if vs.length == arity then applyFun p f vs
    else if vs.length < arity then pure (.pap f vs)
    else stuck "too many arguments"
  | .list (.atom "callv" :: fe :: args) => do
    let fv ← eval p env fe
    let vs ← args.mapM (eval p env)
    apply p fv vs
  | .list [.atom "lam", .list ps, body] => pure (.clo (ps.filterMap Sx.asAtom) body env)
  | .list [.atom "pipe", a, f] => do
    let va ← eval p env a
    let vf ← eval p env f
    apply p vf [va]
  | .list [.atom "tup", a, b] => do
    let va ← eval p env a
    let vb ← eval p env b
    pure (.tup va vb)
  | .list [.atom "fst", a] => do
    match ← eval p env a with
    | .tup x _ => pure x
    | _ => stuck "fst"
  | .list [.atom "snd", a] => do
    match ← eval p env a with
    | .tup _ y => pure y
    | _ => stuck "snd"
  | .list (.atom "rec" :: .atom name :: fields) => do
    let fs ← fields.mapM (fun f => match f with
      | .list [.atom n, e'] => do let v ← eval p env e'; pure (n, v)
      | _ => stuck "field")
    pure (.record name fs)
  | .list [.atom "fld", a, .atom f] => do
    match ← eval p env a with
    | .record _ fs =>
      match fs.find? (·.1 == f) with
      | some (_, v) => pure v
      | none => stuck "no field"
    | _ => stuck "fld"
  | .list (.atom "slice" :: es) => do
    let vs ← es.mapM (eval p env)
    pure (.slice vs)
  | .list [.atom "len", a] => do
    match ← eval p env a with
    | .slice xs => pure (.int xs.length)
    | _ => stuck "len"
  | .list [.atom "head", a] => do
    match ← eval p env a with
    | .slice (x :: _) => pure x
    | _ => stuck "head"
  | .list [.atom "map", f, a] => do
    let vf ← eval p env f
    match ← eval p env a with
    | .slice xs => do
      let ys ← xs.mapM (fun x => apply p vf [x])
      pure (.slice ys)
    | _ => stuck "map"
  | .list [.atom "filter", f, a] => do
    let vf ← eval p env f
    match ← eval p env a with
    | .slice xs => do
      let ys ← xs.filterM (fun x => do
        match ← apply p vf [x] with
        | .bool b => pure b
        | _ => stuck "filter")
      pure (.slice ys)
    | _ => stuck "filter"
  | .list [.atom "fold", f, ini, a] => do
    let vf ← eval p env f
    let v0 ← eval p env ini
    match ← eval p env a with
    | .slice xs => xs.foldlM (fun acc x => apply p vf [acc, x]) v0
    | _ => stuck "fold"
  | .list [.atom "concat", sep, a] => do
    let vs ← eval p env sep
    match vs, ← eval p env a with
    | .str s, .slice xs => pure (.str (s.intercalate (xs.map display)))
    | _, _ => stuck "concat"
  | .list (.atom "ctor" :: .atom c :: args) => do
    let vs ← args.mapM (eval p env)
    pure (.uni c vs)
  | .list (.atom "matchu" :: tgt :: arms) => do
    match ← eval p env tgt with
    | .uni c payload =>
      let rec pick : List Sx → M Val
        | [] => stuck "Union pattern fail. Never reached here."
        | .list [.atom pat, .atom bind, body] :: rest =>
          if pat == c || pat == "_" then
            if pat != "_" && bind != "-" && bind != "_" then
              match payload with
              | [v] => eval p ((bind, v) :: env) body
              | _ => stuck "payload"
            else eval p env body
          else pick rest
        | _ => stuck "arm"
      pick arms
    | _ => stuck "matchu"
  | .list (.atom "matchs" :: tgt :: arms) => do
    match ← eval p env tgt with
    | .str s =>
      let rec pickS : List Sx → M Val
        | [] => stuck "no string arm"
        | .list [.atom pat, _, body] :: rest =>
          if pat == "_" then eval p env body
          else if pat.startsWith "$" then eval p ((pat.drop 1 |>.toString, .str s) :: env) body
          else if (Sx.decStr pat).getD "" == s then eval p env body
          else pickS rest
        | _ => stuck "arm"
      pickS arms
    | _ => stuck "matchs"
  | .list (.atom "interp" :: parts) => do
    let ss ← parts.mapM (fun part => match part with
      | .list [.atom "t", t] => pure (strOf t)
      | .list [.atom "h", .atom x] => do let v ← lookup env x; pure (display v)
      | _ => stuck "interp")
    pure (.str (String.join ss))
  | .list [.atom "println", a] => do
    let v ← eval p env a
    emit (display v ++ "\n")
    pure .unit
  | .list [.atom "printf1", f, a] => do
    let v ← eval p env a
    emit (format1 (strOf f) v)
    pure .unit
  | .list [.atom "sprintf1", f, a] => do
    let v ← eval p env a
    pure (.str (format1 (strOf f) v))
  | .list [.atom "tr", tag, a] => do
    let v ← eval p env a
    emit (strOf tag ++ "\n")
    pure v
  | _ => stuck ("unknown expression " ++ toString e)

partial def applyFun (p : Prog) (f : String) (args : List Val) : M Val :=
  match p.find f with
  | none => stuck ("unknown function " ++ f)
  | some (params, body) => eval p (params.zip args).reverse body

partial def apply (p : Prog) (fv : Val) (args : List Val) : M Val :=
  match fv with
  | .clo ps body cenv =>
    if ps.length == args.length then eval p ((ps.zip args).reverse ++ cenv) body
    else stuck "closure arity"
  | .pap f given =>
    match p.find f with
    | none => stuck ("unknown function " ++ f)
    | some (params, _) =>
      let all := given ++ args
      if all.length == params.length then applyFun p f all
      else if all.length < params.length then pure (.pap f all)
      else stuck "pap arity"
  | _ => stuck "apply of a non-function"
end

def handle (payload : List Sx) : Sx :=
  match payload with
  | [.list funs, .atom entry] =>
    let fs := funs.filterMap (fun f => match f with
      | .list [.atom "fun", .atom n, .list ps, body] => some (n, ps.filterMap Sx.asAtom, body)
      | _ => none)
    let p : Prog := { funs := fs }
    match (applyFun p entry []).run "" with
    | .ok (_, out) => .atom (Sx.encStr out)
    | .error why => .list [.atom "stuck", .atom (Sx.encStr why)]
  | _ => .atom "bad-line"

end Oracle.FSem
