import Oracle.Sexp
import Folang.Props.C07Balanced
/-
Stream c07.key: name (arg…)  →  (key x<hex of the model's encodedKey> items|not-items)
`items` says that the hypotheses of `encodedKey_inj_balanced` hold for this instance: no `<` in the
name, every argument text bracket-balanced with commas only inside brackets (`item 0`).
The real side sends the Go texts `FTypeToGo` gives the type arguments and answers with the real
`encodedKey` and `items`: a key that differs, or an argument text outside the proved class, is a mismatch.
-/
namespace Oracle.Key
open Oracle Folang.Props.C07

def handle (payload : List Sx) : Sx :=
  match payload with
  | [.atom n, .list as] =>
    match Sx.decStr n, as.mapM (fun a => match a with | .atom s => Sx.decStr s | _ => none) with
    | some name, some args =>
      let key := encodedKey name.toList (args.map String.toList)
      let ok := !name.toList.contains '<' && args.all (fun a => item 0 a.toList)
      .list [.atom "key", .atom (Sx.encStr (String.ofList key)), .atom (if ok then "items" else "not-items")]
    | _, _ => .atom "bad-hex"
  | _ => .atom "bad-line"

end Oracle.Key
