import Oracle.Sexp
import Folang.Model.Lib
/-
Oracle streams `lib.dict`, `lib.str`, `lib.buf`, `lib.tos` over Model/Lib.lean.
-/
namespace Oracle.Lib
open Folang.Lib Oracle

def bytesOf (x : Sx) : List UInt8 := match x with
  | .atom s => (Sx.decBytes s).getD []
  | _ => []

def bSx (b : List UInt8) : Sx := .atom (Sx.encBytes b)
def boolSx (b : Bool) : Sx := .atom (if b then "true" else "false")
def intOf (x : Sx) : Int := (Sx.asInt x).getD 0

/-- sort S-expressions by their printed form (canonical order for enumerations) -/
def sortSx (xs : List Sx) : List Sx := (xs.map toString).mergeSort (· ≤ ·) |>.map .atom

/-- dict over int keys and byte-string values -/
def dictStream (ops : List Sx) : Sx :=
  let _ : Inhabited (List UInt8) := ⟨[]⟩
  let (_, outs) := ops.foldl (fun (acc : GoMap Int (List UInt8) × Array Sx) op =>
    let (d, outs) := acc
    match op with
    | .list [.atom "add", k, v] => (dictAdd d (intOf k) (bytesOf v), outs.push (.atom "ok"))
    | .list [.atom "contains", k] => (d, outs.push (boolSx (dictContainsKey d (intOf k))))
    | .list [.atom "tryfind", k] =>
      let r := dictTryFind d (intOf k)
      (d, outs.push (.list [bSx r.1, boolSx r.2]))
    | .list [.atom "item", k] => (d, outs.push (bSx (dictItem d (intOf k))))
    | .list [.atom "keys"] => (d, outs.push (.list (sortSx ((dictKeys id d).map (fun k => .atom (toString k))))))
    | .list [.atom "values"] => (d, outs.push (.list (sortSx ((dictValues id d).map bSx))))
    | .list [.atom "kvs"] =>
      (d, outs.push (.list (sortSx ((dictKVs id d).map (fun e => .list [.atom (toString e.1), bSx e.2])))))
    | .list (.atom "todict" :: kvs) =>
      let ss := kvs.filterMap (fun e => match e with | .list [k, v] => some (intOf k, bytesOf v) | _ => none)
      (dictToDict ss, outs.push (.atom "ok"))
    | .list [.atom "new"] => (dictNew, outs.push (.atom "ok"))
    | _ => (d, outs.push (.atom "bad-op"))) (dictNew, #[])
  .list outs.toList

def strCall (call : List Sx) : Sx :=
  let b (k : Nat) := bytesOf (call.getD k (.atom "x"))
  let listSx (l : List (List UInt8)) : Sx := .list (l.map bSx)
  match call with
  | .atom "Concat" :: sep :: rest => bSx (Concat (bytesOf sep) (rest.map bytesOf))
  | [.atom "Length", s] => .atom (toString (Length (bytesOf s)))
  | [.atom "AppendTail", _, _] => bSx (AppendTail (b 1) (b 2))
  | [.atom "AppendHead", _, _] => bSx (AppendHead (b 1) (b 2))
  | [.atom "HasSuffix", _, _] => boolSx (HasSuffix (b 1) (b 2))
  | [.atom "TrimSuffix", _, _] => bSx (TrimSuffix (b 1) (b 2))
  | [.atom "HasPrefix", _, _] => boolSx (HasPrefix (b 1) (b 2))
  | [.atom "EncloseWith", _, _, _] => bSx (EncloseWith (b 1) (b 2) (b 3))
  | [.atom "Split", _, _] => listSx (Split (b 1) (b 2))
  | [.atom "SplitN", n, _, _] => listSx (SplitN (intOf n) (b 2) (b 3))
  | [.atom "IsEmpty", _] => boolSx (IsEmpty (b 1))
  | [.atom "IsNotEmpty", _] => boolSx (IsNotEmpty (b 1))
  | _ => .atom "bad-op"

def bufStream (ops : List Sx) : Sx :=
  let (_, outs) := ops.foldl (fun (acc : Buffer UInt8 × Array Sx) op =>
    let (b, outs) := acc
    match op with
    | .list [.atom "write", s] => (bufWrite b (bytesOf s), outs.push (.atom "ok"))
    | .list [.atom "string"] => (b, outs.push (bSx (bufString b)))
    | .list [.atom "new"] => (bufNew, outs.push (.atom "ok"))
    | _ => (b, outs.push (.atom "bad-op"))) (bufNew, #[])
  .list outs.toList

/-- `(kind value)`: what SInterP("%s", v) gives: decimal for integer kinds, the string for String,
true/false for Bool; floats and the rest are not compared (`nocmp`) -/
def tosCall (call : List Sx) : Sx :=
  match call with
  | [.atom kind, v] =>
    match kindClass kind with
    | .int | .uint => .atom (toString (intOf v))
    | .string => bSx (bytesOf v)
    | .float => .atom "nocmp"
    | .other => if kind == "Bool" then v else .atom "nocmp"
  | _ => .atom "bad-op"

end Oracle.Lib
