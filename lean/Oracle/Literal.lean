import Oracle.Sexp
import Folang.Model.Literal
/-
Oracle streams for C11:
  c11.scan x<src>            → (tok TYPE begin len x<stringVal>) | (panic)    the literal scanners
  c11.interp x<text>         → (ok x<format> (x<var>…)) | (panic)             ParseSInterP
  c11.unquote x<body>        → (ok x<value>) | (none)                          assumed Go unquoting
  c11.sprintf x<fmt> (x<a>…) → (ok x<text>) | (none)                           assumed Sprintf
  c11.lit (seg…) ((x<name> x<display>)…) → (ok x<denoted text>)               the specification
-/
namespace Oracle.Literal
open Folang.Literal Oracle

def bytesOf (x : Sx) : Bytes := match x with
  | .atom s => (Sx.decBytes s).getD []
  | _ => []
def bSx (b : Bytes) : Sx := .atom (Sx.encBytes b)

def scan (src : Bytes) : Sx :=
  let tok (ty : String) (begin : Nat) (total : Nat) (r : Except Err (Bytes × Bytes)) : Sx :=
    match r with
    | .ok (v, rest) => .list [.atom "tok", .atom ty, .atom (toString begin), .atom (toString (total - rest.length)), bSx v]
    | .error _ => .list [.atom "panic"]
  match src with
  | 34 :: rest => tok "STRING" 0 src.length (scanStr rest)
  | 96 :: rest => tok "STRING" 0 src.length (scanRaw rest)
  | 36 :: 34 :: rest => tok "SINTERP" 1 (src.length - 1) (scanStr rest)
  | 36 :: 96 :: rest => tok "SINTERP" 1 (src.length - 1) (scanRaw rest)
  | 36 :: _ => .list [.atom "panic"]      -- `$` not followed by a quote: panic(b)
  | _ => .atom "not-a-literal"

def segOf : Sx → Option Seg
  | .list [.atom "lit", b] => (Sx.asNat b).map (fun n => .lit (UInt8.ofNat n))
  | .list [.atom "esc", b] => (Sx.asNat b).map (fun n => .esc (UInt8.ofNat n))
  | .list [.atom "brace", b] => (Sx.asNat b).map (fun n => .brace (UInt8.ofNat n))
  | .list [.atom "hole", n] => some (.hole (bytesOf n))
  | _ => none

def handle (stream : String) (payload : List Sx) : Sx :=
  match stream, payload with
  | "c11.scan", [s] => scan (bytesOf s)
  | "c11.interp", [s] =>
    let b := bytesOf s
    match parseInterp (b.length + 1) b with
    | .ok (f, vs) => .list [.atom "ok", bSx f, .list (vs.map bSx)]
    | .error _ => .list [.atom "panic"]
  | "c11.unquote", [s] =>
    match goUnquote (bytesOf s) with
    | some v => .list [.atom "ok", bSx v]
    | none => .list [.atom "none"]
  | "c11.sprintf", [f, .list args] =>
    match sprintf (bytesOf f) (args.map bytesOf) with
    | some v => .list [.atom "ok", bSx v]
    | none => .list [.atom "none"]
  | "c11.lit", [.list segs, .list env] =>
    match segs.mapM segOf with
    | none => .atom "bad-seg"
    | some ss =>
      let tbl := env.filterMap (fun e => match e with | .list [n, d] => some (bytesOf n, bytesOf d) | _ => none)
      let envf := fun (n : Bytes) => ((tbl.find? (·.1 == n)).map (·.2)).getD []
      .list [.atom "ok", bSx (denote envf ss)]
  | _, _ => .atom "bad-line"

end Oracle.Literal
