import Oracle.Sexp
import Folang.Model.Offside
/-
Stream c06.block: ((k col)…) → the block shape the offside model reads from the token sequence, or
(reject).  k = w (word) | o (opener) | n (end of line) | e (end of input).  The tokens are the REAL
tokenizer's (kinds abstracted by the harness, columns as computed by tkzNext).  The whole file is
one block at column 0 (the initial offside stack of the real parser is [0]).
shape: L = a statement without a block, (B item…) = the block opened by a statement.
-/
namespace Oracle.OffsideStream
open Oracle Folang.Offside

def tokOf : Sx → Option Tok
  | .list [.atom k, .atom c] => do
    let col ← c.toNat?
    match k with
    | "w" => some ⟨.word 0, col⟩
    | "o" => some ⟨.opener, col⟩
    | "n" => some ⟨.eol, col⟩
    | "e" => some ⟨.eof, col⟩
    | _ => none
  | _ => none

mutual
def shapeT : T → List Sx
  | .line _ => [.atom "L"]
  | .opn ws body => (if ws.isEmpty then [] else []) ++ [.list (.atom "B" :: shapeTs body)]
def shapeTs : List T → List Sx
  | [] => []
  | t :: ts => shapeT t ++ shapeTs ts
end

def handle (payload : List Sx) : Sx :=
  match payload with
  | [.list ts] =>
    match ts.mapM tokOf with
    | none => .atom "bad-token"
    | some toks =>
      -- fuel 3·|tokens| + 2 suffices for every token sequence (Props/C16Block.lean: list_terminates)
      match pList (3 * (skipEOL toks).length + 2) 0 (skipEOL toks) with
      | .ok tree rest =>
        if isEOF rest then .list (shapeTs tree) else .list [.atom "stopped-before-end", .atom (toString rest.length)]
      | .reject => .list [.atom "reject"]
      | .fuel => .list [.atom "out-of-fuel"]
  | _ => .atom "bad-line"

end Oracle.OffsideStream
