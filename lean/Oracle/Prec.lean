import Oracle.Sexp
import Folang.Model.Prec
import Folang.Model.TermParser
import Folang.Spec.OpTable
/-
Oracle stream `c08.chain`: an abstract operator chain (terms: names, applications, `not`, parenthesised
chains; line breaks before operators) is rendered to tokens and parsed by the token-level model
`Folang.Prec.exprP` with the concrete term parser `Folang.Prec.pTerm` (Model/TermParser.lean: mirror
of parseTerm / parseAtomList / parseAtom for this fragment; Props/C08Term.lean proves it reads back
every well-formed operand); the answer is the grouping tree with parentheses dropped.
The answer is also compared, inside the oracle, with the chain-level reference `group`
(`check-failed` if they ever differ).
-/
namespace Oracle.Prec
open Folang.Prec Folang.Spec Oracle

/-! rendering of the abstract chain to tokens -/
mutual
partial def renderE : Sx → Option (List Tok)
  | .list (.atom "chain" :: first :: items) => do
    let f ← renderT first
    let rest ← items.mapM (fun it => match it with
      | .list [n, .atom op, t] => do
        let k ← opId op
        let ts ← renderT t
        pure (List.replicate ((Sx.asNat n).getD 0) Tok.eol ++ [Tok.op k] ++ ts)
      | _ => none)
    pure (f ++ rest.flatten)
  | _ => none
partial def renderT : Sx → Option (List Tok)
  | .list [.atom "not", t] => do
    let ts ← renderT t
    pure (.other "not" :: ts)
  | .list (.atom "app" :: as) => do
    let xs ← as.mapM renderA
    pure xs.flatten
  | a => renderA a
partial def renderA : Sx → Option (List Tok)
  | .atom s => some [.other s]
  | .list [.atom "paren", e] => do
    let ts ← renderE e
    pure ([.other "("] ++ ts ++ [.other ")"])
  | _ => none
end

mutual
partial def otSx : OT → Sx
  | .name s => .atom s
  | .not t => .list [.atom "not", otSx t]
  | .app ts => .list (.atom "app" :: ts.map otSx)
  | .paren e => gSx e
partial def gSx : G OT → Sx
  | .atom a => otSx a
  | .bin k l r => .list [.atom "bin", .atom (opText k), gSx l, gSx r]
end

/-- chain of a top-level parse, for the internal cross-check against `group` -/
def chainOf : G OT → OT × List (Nat × OT)
  | .atom a => (a, [])
  | .bin op l r => ((chainOf l).1, (chainOf l).2 ++ [(op, (chainOf r).1)] ++ (chainOf r).2)

def handle (payload : List Sx) : Sx :=
  match payload with
  | [e] =>
    match renderE e with
    | none => .atom "bad-chain"
    | some ts =>
      let fuel := 4 * ts.length + 8
      match exprP (pTerm publishedPrec fuel) publishedPrec fuel 1 ts with
      | some (g, []) =>
        let c := chainOf g
        -- the proved equality climb = group, re-checked on this input
        if toString (gSx (group publishedPrec (.atom c.1) c.2)) == toString (gSx g) then gSx g
        else .atom "check-failed"
      | some (_, _) => .atom "trailing-tokens"
      | none => .atom "parse-error"
  | _ => .atom "bad-line"

end Oracle.Prec
