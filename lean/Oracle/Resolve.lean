import Oracle.Sexp
import Folang.Model.Resolve
/-
Stream c16.resolve: ((name ty)…) ty  →  (ok ty) | (cyclic name)
ty = (v name) | (c head ty…).  The fuel is the number of bindings + 1 (Props/C16Resolve.lean proves
that it suffices: `resolve_terminates`); `out-of-fuel` would contradict the theorem.
-/
namespace Oracle.ResolveStream
open Oracle Folang.Infer Folang.Resolve

partial def tyOf : Sx → Option ITy
  | .list [.atom "v", .atom n] => some (.var n)
  | .list (.atom "c" :: .atom h :: args) => do
    let as ← args.mapM tyOf
    pure (.con h as)
  | _ => none

partial def tySx : ITy → Sx
  | .var n => .list [.atom "v", .atom n]
  | .con h as => .list (.atom "c" :: .atom h :: as.map tySx)

def handle (payload : List Sx) : Sx :=
  match payload with
  | [.list bs, q] =>
    let rsv : Resolver := bs.filterMap (fun b => match b with
      | .list [.atom n, t] => (tyOf t).map (fun ty => (n, ty))
      | _ => none)
    match tyOf q with
    | none => .atom "bad-type"
    | some t =>
      match resolveType rsv (rsv.keys.length + 1) t with
      | .ok r => .list [.atom "ok", tySx r]
      | .error (.cyclic v) => .list [.atom "cyclic", .atom v]
      | .error .outOfFuel => .atom "out-of-fuel"
  | _ => .atom "bad-line"

end Oracle.ResolveStream
