import Oracle.Sexp
import Folang.Model.SampleMd
/- Oracle stream `c18.run`: x<list file> ((x<name> x<content>)…) → (write x<README>) | (fail) -/
namespace Oracle.SampleMd
open Folang.SampleMd Oracle

def bytesOf (x : Sx) : Bytes := match x with
  | .atom s => (Sx.decBytes s).getD []
  | _ => []

def handle (payload : List Sx) : Sx :=
  match payload with
  | [lst, .list files] =>
    let tbl := files.filterMap (fun e => match e with | .list [n, c] => some (bytesOf n, bytesOf c) | _ => none)
    let fs : FS := fun n => (tbl.find? (·.1 == n)).map (·.2)
    match processListFile fs (bytesOf lst) with
    | .write c => .list [.atom "write", .atom (Sx.encBytes c)]
    | .fail _ => .list [.atom "fail"]
  | _ => .atom "bad-line"

end Oracle.SampleMd
