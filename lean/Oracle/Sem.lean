import Oracle.Sexp
import Folang.Sem.Lower
import Folang.Lemmas.SimRel
/-
Streams over the formal semantics (Folang/Sem):
  sem.prog  ((fun name (params) body)…) entry
      → x<hex of the output of the reference semantics `runProg`>            when the program is in the
        verified fragment AND the Go-core semantics of its lowering (`grunProg (lowerProg P)`) gives
        the same output (the instance of Props/Sim.lean's theorem is re-checked by evaluation);
      → (outside-fragment <construct>)  otherwise;  (sim-mismatch …) if the two semantics differ.
The abstract programs are those of harness/fcdrv/gen.go (same S-expressions as stream c01.prog).
`bind` = true for fc (given arguments of a partial application that are not inert are evaluated first,
fix of D9), false for tinyfo (streams sem.progT / sem.lowerT).
-/
namespace Oracle.SemStream
open Oracle Folang.Sem

abbrev Conv := Except String

def strOf (x : Sx) : Conv String := match x with
  | .atom s => match Sx.decStr s with
    | some v => pure v
    | none => throw "bad string"
  | _ => throw "bad string"

def bindOf (b : String) : Option String := if b == "-" || b == "_" then none else some b

mutual
partial def toExpr (e : Sx) : Conv Expr :=
  match e with
  | .list [.atom "int", n] =>
    -- a negative literal is written `0 - k` in the program text
    let k := (Sx.asInt n).getD 0
    if k < 0 then pure (.prim (.arith "-") [.lit (.int 0), .lit (.int (-k))]) else pure (.lit (.int k))
  | .list [.atom "str", s] => do pure (.lit (.str (← strOf s)))
  | .list [.atom "bool", .atom b] => pure (.lit (.bool (b == "true")))
  | .list [.atom "unit"] => pure (.lit .unit)
  | .list [.atom "var", .atom x] => pure (.var x)
  | .list [.atom "bin", .atom op, a, b] => do
    let a' ← toExpr a
    let b' ← toExpr b
    if op == "&&" then pure (.and a' b')
    else if op == "||" then pure (.or a' b')
    else if op == "=" then pure (.prim .eq [a', b'])
    else if op == "<>" then pure (.prim .ne [a', b'])
    else pure (.prim (.arith op) [a', b'])
  | .list [.atom "not", a] => do pure (.prim .not [← toExpr a])
  | .list [.atom "if", c, t, f] => do pure (.ite (← toExpr c) (← toBody t) (← toBody f))
  | .list (.atom "call" :: .atom f :: ar :: args) => do
    pure (.call f ((Sx.asNat ar).getD 0) (← args.mapM toExpr))
  | .list (.atom "callv" :: fe :: args) => do pure (.callv (← toExpr fe) (← args.mapM toExpr))
  | .list [.atom "lam", .list ps, body] => do pure (.lam (ps.filterMap Sx.asAtom) (← toBody body))
  | .list [.atom "pipe", a, f] => do pure (.pipe (← toExpr a) (← toExpr f))
  | .list [.atom "tup", a, b] => do pure (.prim .tup [← toExpr a, ← toExpr b])
  | .list [.atom "fst", a] => do pure (.prim .fst [← toExpr a])
  | .list [.atom "snd", a] => do pure (.prim .snd [← toExpr a])
  | .list (.atom "rec" :: .atom name :: fields) => do
    let fs ← fields.mapM (fun f => match f with
      | .list [.atom n, e'] => do pure (n, ← toExpr e')
      | _ => throw "field")
    pure (.prim (.mkRec name (fs.map (·.1))) (fs.map (·.2)))
  | .list [.atom "fld", a, .atom f] => do pure (.prim (.fld f) [← toExpr a])
  | .list (.atom "slice" :: es) => do pure (.prim .mkSlice (← es.mapM toExpr))
  | .list [.atom "len", a] => do pure (.prim .len [← toExpr a])
  | .list [.atom "head", a] => do pure (.prim .head [← toExpr a])
  | .list [.atom "map", f, a] => do pure (.hof "map" (← toExpr f) [← toExpr a])
  | .list [.atom "filter", f, a] => do pure (.hof "filter" (← toExpr f) [← toExpr a])
  | .list [.atom "fold", f, ini, a] => do pure (.hof "fold" (← toExpr f) [← toExpr ini, ← toExpr a])
  | .list [.atom "concat", sep, a] => do pure (.prim .concat [← toExpr sep, ← toExpr a])
  | .list (.atom "ctor" :: .atom c :: args) => do pure (.prim (.ctor "" c) (← args.mapM toExpr))
  | .list (.atom "matchu" :: tgt :: arms) => do pure (.matchE (← toExpr tgt) (← arms.mapM toArm))
  | .list (.atom "matchs" :: tgt :: arms) => do pure (.matchSE (← toExpr tgt) (← arms.mapM toSArm))
  | .list (.atom "interp" :: parts) => do
    let ps ← parts.mapM (fun part => match part with
      | .list [.atom "t", t] => do pure (some (← strOf t), none)
      | .list [.atom "h", .atom x] => pure (none, some (Expr.var x))
      | _ => throw "interp-part")
    pure (.prim (.interp (ps.map (·.1))) (ps.filterMap (·.2)))
  | .list [.atom "println", a] => do pure (.prim .println [← toExpr a])
  | .list [.atom "printf1", f, a] => do pure (.prim .printf1 [.lit (.str (← strOf f)), ← toExpr a])
  | .list [.atom "sprintf1", f, a] => do pure (.prim .sprintf1 [.lit (.str (← strOf f)), ← toExpr a])
  | .list [.atom "tr", tag, a] => do pure (.call "tr$" 2 [.lit (.str (← strOf tag)), ← toExpr a])
  | .list (.atom op :: _) => throw op
  | _ => throw "expression"

partial def toArm (a : Sx) : Conv Arm :=
  match a with
  | .list [.atom pat, .atom bind, body] => do pure (.mk pat (bindOf bind) (← toBody body))
  | _ => throw "arm"

partial def toSArm (a : Sx) : Conv SArm :=
  match a with
  | .list [.atom pat, _, body] =>
    if pat == "_" then do pure (.mk none (← toBody body))
    else if pat.startsWith "$" then throw "matchs-variable-arm"
    else do pure (.mk (some (← strOf (.atom pat))) (← toBody body))
  | _ => throw "arm"

/-- an expression in body position (function / branch / arm / lambda body) -/
partial def toBody (e : Sx) : Conv Body :=
  match e with
  | .list [.atom "block", .list stmts, fin] => do
    let ss ← stmts.mapM toStmt
    let .mk ss2 tail ← toBody fin
    pure (.mk (ss ++ ss2) tail)
  | .list (.atom "matchu" :: tgt :: arms) => do pure (.mk [] (.matchT (← toExpr tgt) (← arms.mapM toArm)))
  | .list (.atom "matchs" :: tgt :: arms) => do pure (.mk [] (.matchST (← toExpr tgt) (← arms.mapM toSArm)))
  | .list [.atom "ifonly", c, t] => do
    -- a unit-valued body that is just an if-only statement
    pure (.mk [.ifonly (← toExpr c) (← toBody t)] (.ret (.lit .unit)))
  | _ => do pure (.mk [] (.ret (← toExpr e)))

partial def toStmt (s : Sx) : Conv Stmt :=
  match s with
  | .list [.atom "let", .atom x, rhs] => do pure (.let1 x (← toExpr rhs))
  | .list [.atom "let2", .atom x, .atom y, rhs] => do pure (.let2 x y (← toExpr rhs))
  | .list [.atom "do", .list [.atom "ifonly", c, t]] => do pure (.ifonly (← toExpr c) (← toBody t))
  | .list [.atom "do", rhs] => do pure (.exec (← toExpr rhs))
  | _ => throw "stmt"
end

def trDef : FunDef :=
  { name := "tr$", params := ["tag", "v"],
    body := .mk [.exec (.prim .println [.var "tag"])] (.ret (.var "v")) }

def toProg (funs : List Sx) : Conv Prog := do
  let fs ← funs.mapM (fun f => match f with
    | .list [.atom "fun", .atom n, .list ps, body] => do
      pure ({ name := n, params := ps.filterMap Sx.asAtom, body := ← toBody body } : FunDef)
    | _ => throw "fun")
  pure (trDef :: fs)

def fuel : Nat := 4000

/-! ### printing Go-core (the format of harness/fcdrv/gocore.go) -/

def sx (items : List Sx) : Sx := .list items
def at_ (s : String) : Sx := .atom s

def primCallee : Prim → String
  | .eq => "frt.OpEqual" | .ne => "frt.OpNotEqual" | .not => "frt.OpNot"
  | .tup => "frt.NewTuple2" | .fst => "frt.Fst" | .snd => "frt.Snd"
  | .len => "slice.Length" | .head => "slice.Head"
  | .println => "frt.Println" | .printf1 => "frt.Printf1" | .sprintf1 => "frt.Sprintf1"
  | .concat => "strings.Concat" | .interp _ => "frt.SInterP"
  | _ => "?"

def hofCallee (h : String) : String :=
  if h == "map" then "slice.Map" else if h == "filter" then "slice.Filter" else if h == "fold" then "slice.Fold" else "?"

mutual
partial def printE : GExpr → Sx
  | .lit (.int n) => sx [at_ "int", at_ (toString n)]
  | .lit (.str s) => sx [at_ "str", at_ (Sx.encStr s)]
  | .lit (.bool b) => sx [at_ "bool", at_ (if b then "true" else "false")]
  | .lit .unit => sx [at_ "unit"]
  | .var x => sx [at_ "var", at_ x]
  | .prim (.arith op) [a, b] => sx [at_ "bin", at_ op, printE a, printE b]
  | .prim (.mkRec name fields) args =>
    sx (at_ "rec" :: at_ name :: (fields.zip args).map (fun fa => sx [at_ fa.1, printE fa.2]))
  | .prim (.fld f) [e] => sx [at_ "fld", printE e, at_ f]
  | .prim .mkSlice args => sx (at_ "slice" :: args.map printE)
  | .prim (.ctor _ c) args => sx (at_ "ctor" :: at_ c :: args.map printE)
  | .prim p args => sx (at_ "call" :: at_ (primCallee p) :: args.map printE)
  | .and a b => sx [at_ "and", printE a, printE b]
  | .or a b => sx [at_ "or", printE a, printE b]
  | .ifElse c t f => sx [at_ "call", at_ "frt.IfElse", printE c, printE t, printE f]
  | .ifOnly c t => sx [at_ "call", at_ "frt.IfOnly", printE c, printE t]
  | .callFn f args => sx (at_ "call" :: at_ f :: args.map printE)
  | .callVal f args => sx (at_ "callv" :: printE f :: args.map printE)
  | .funcLit ps b => sx [at_ "func", sx (ps.map at_), printB b]
  | .pipe a f => sx [at_ "call", at_ "frt.Pipe", printE a, printE f]
  | .hof h f args => sx (at_ "call" :: at_ (hofCallee h) :: printE f :: args.map printE)
partial def printB : GBody → Sx
  | .mk ss tail => sx [at_ "body", sx (ss.map printS), printT tail]
partial def printS : GStmt → Sx
  | .define x e => sx [at_ "def", at_ x, printE e]
  | .define2 x y e => sx [at_ "def2", at_ x, at_ y, printE e]
  | .exec e => sx [at_ "exec", printE e]
partial def printT : GTail → Sx
  | .ret e => sx [at_ "ret", printE e]
  | .switch t cases =>
    sx (at_ "switch" :: printE t :: cases.map (fun c => match c with
      | .mk name bind b => sx [at_ "case", at_ name, at_ (bind.getD "-"), printB b]))
  | .switchS t cases =>
    sx (at_ "switchS" :: printE t :: cases.map (fun c => match c with
      | .mk (some p) b => sx [at_ "case", sx [at_ "str", at_ (Sx.encStr p)], printB b]
      | .mk none b => sx [at_ "default", printB b]))
end

/-- stream sem.lower: one abstract function → the Go-core of its lowering -/
def handleLower (bind : Bool) (payload : List Sx) : Sx :=
  match payload with
  | [.list [.atom "fun", .atom n, .list ps, body]] =>
    match toBody body with
    | .error why => .list [.atom "outside-fragment", .atom why]
    | .ok b =>
      if !wfB bind b then .list [.atom "outside-fragment", .atom "not-wf"]
      else sx [at_ "gfun", at_ n, sx (ps.filterMap Sx.asAtom |>.map at_), printB (lowerB bind b)]
  | _ => .atom "bad-line"

def handle (bind : Bool) (payload : List Sx) : Sx :=
  match payload with
  | [.list funs, .atom entry] =>
    match toProg funs with
    | .error why => .list [.atom "outside-fragment", .atom why]
    | .ok P =>
      if !wfProgB bind P then .list [.atom "outside-fragment", .atom "not-wf"] else
      match runProg P entry fuel with
      | none => .list [.atom "stuck"]
      | some (tr, _) =>
        let out := String.join tr
        match grunProg (lowerProg bind P) entry fuel with
        | some (gtr, _) =>
          if String.join gtr == out then .atom (Sx.encStr out)
          else .list [.atom "sim-mismatch", .atom (Sx.encStr out), .atom (Sx.encStr (String.join gtr))]
        | none => .list [.atom "sim-mismatch", .atom (Sx.encStr out), .atom "go-core-stuck"]
  | _ => .atom "bad-line"

end Oracle.SemStream
