import Oracle.Sexp
import Folang.Sem.Lower
/-
Streams over the formal semantics (Folang/Sem):
  sem.prog  ((fun name (params) body)…) entry
      → x<hex of the output of the reference semantics `runProg`>            when the program is in the
        verified fragment AND the Go-core semantics of its lowering (`grunProg (lowerProg P)`) gives
        the same output (the instance of Props/Sim.lean's theorem is re-checked by evaluation);
      → (outside-fragment <construct>)  otherwise;  (sim-mismatch …) if the two semantics differ.
The abstract programs are those of harness/fcdrv/gen.go (same S-expressions as stream c01.prog).
-/
namespace Oracle.SemStream
open Oracle Folang.Sem

abbrev Conv := Except String

def strOf (x : Sx) : Conv String := match x with
  | .atom s => match Sx.decStr s with
    | some v => pure v
    | none => throw "bad string"
  | _ => throw "bad string"

def bindOf (b : String) : Option String := if b == "-" || b == "_" then none else some b

mutual
partial def toExpr (e : Sx) : Conv Expr :=
  match e with
  | .list [.atom "int", n] => pure (.lit (.int ((Sx.asInt n).getD 0)))
  | .list [.atom "str", s] => do pure (.lit (.str (← strOf s)))
  | .list [.atom "bool", .atom b] => pure (.lit (.bool (b == "true")))
  | .list [.atom "unit"] => pure (.lit .unit)
  | .list [.atom "var", .atom x] => pure (.var x)
  | .list [.atom "bin", .atom op, a, b] => do
    let a' ← toExpr a
    let b' ← toExpr b
    if op == "&&" then pure (.and a' b')
    else if op == "||" then pure (.or a' b')
    else if op == "=" then pure (.prim .eq [a', b'])
    else if op == "<>" then pure (.prim .ne [a', b'])
    else pure (.prim (.arith op) [a', b'])
  | .list [.atom "not", a] => do pure (.prim .not [← toExpr a])
  | .list [.atom "if", c, t, f] => do pure (.ite (← toExpr c) (← toBody t) (← toBody f))
  | .list (.atom "call" :: .atom f :: ar :: args) => do
    pure (.call f ((Sx.asNat ar).getD 0) (← args.mapM toExpr))
  | .list (.atom "callv" :: fe :: args) => do pure (.callv (← toExpr fe) (← args.mapM toExpr))
  | .list [.atom "lam", .list ps, body] => do pure (.lam (ps.filterMap Sx.asAtom) (← toBody body))
  | .list [.atom "pipe", a, f] => do pure (.pipe (← toExpr a) (← toExpr f))
  | .list [.atom "tup", a, b] => do pure (.prim .tup [← toExpr a, ← toExpr b])
  | .list [.atom "fst", a] => do pure (.prim .fst [← toExpr a])
  | .list [.atom "snd", a] => do pure (.prim .snd [← toExpr a])
  | .list (.atom "rec" :: .atom name :: fields) => do
    let fs ← fields.mapM (fun f => match f with
      | .list [.atom n, e'] => do pure (n, ← toExpr e')
      | _ => throw "field")
    pure (.prim (.mkRec name (fs.map (·.1))) (fs.map (·.2)))
  | .list [.atom "fld", a, .atom f] => do pure (.prim (.fld f) [← toExpr a])
  | .list (.atom "slice" :: es) => do pure (.prim .mkSlice (← es.mapM toExpr))
  | .list [.atom "len", a] => do pure (.prim .len [← toExpr a])
  | .list [.atom "head", a] => do pure (.prim .head [← toExpr a])
  | .list [.atom "map", f, a] => do pure (.hof "map" (← toExpr f) [← toExpr a])
  | .list [.atom "filter", f, a] => do pure (.hof "filter" (← toExpr f) [← toExpr a])
  | .list [.atom "fold", f, ini, a] => do pure (.hof "fold" (← toExpr f) [← toExpr ini, ← toExpr a])
  | .list [.atom "concat", sep, a] => do pure (.prim .concat [← toExpr sep, ← toExpr a])
  | .list (.atom "ctor" :: .atom c :: args) => do pure (.prim (.ctor "" c) (← args.mapM toExpr))
  | .list (.atom "matchu" :: tgt :: arms) => do pure (.matchE (← toExpr tgt) (← arms.mapM toArm))
  | .list (.atom "matchs" :: tgt :: arms) => do pure (.matchSE (← toExpr tgt) (← arms.mapM toSArm))
  | .list (.atom "interp" :: parts) => do
    let ps ← parts.mapM (fun part => match part with
      | .list [.atom "t", t] => do pure (some (← strOf t), none)
      | .list [.atom "h", .atom x] => pure (none, some (Expr.var x))
      | _ => throw "interp-part")
    pure (.prim (.interp (ps.map (·.1))) (ps.filterMap (·.2)))
  | .list [.atom "println", a] => do pure (.prim .println [← toExpr a])
  | .list [.atom "printf1", f, a] => do pure (.prim .printf1 [.lit (.str (← strOf f)), ← toExpr a])
  | .list [.atom "sprintf1", f, a] => do pure (.prim .sprintf1 [.lit (.str (← strOf f)), ← toExpr a])
  | .list [.atom "tr", tag, a] => do pure (.call "tr$" 2 [.lit (.str (← strOf tag)), ← toExpr a])
  | .list (.atom op :: _) => throw op
  | _ => throw "expression"

partial def toArm (a : Sx) : Conv Arm :=
  match a with
  | .list [.atom pat, .atom bind, body] => do pure (.mk pat (bindOf bind) (← toBody body))
  | _ => throw "arm"

partial def toSArm (a : Sx) : Conv SArm :=
  match a with
  | .list [.atom pat, _, body] =>
    if pat == "_" then do pure (.mk none (← toBody body))
    else if pat.startsWith "$" then throw "matchs-variable-arm"
    else do pure (.mk (some (← strOf (.atom pat))) (← toBody body))
  | _ => throw "arm"

/-- an expression in body position (function / branch / arm / lambda body) -/
partial def toBody (e : Sx) : Conv Body :=
  match e with
  | .list [.atom "block", .list stmts, fin] => do
    let ss ← stmts.mapM toStmt
    let .mk ss2 tail ← toBody fin
    pure (.mk (ss ++ ss2) tail)
  | .list (.atom "matchu" :: tgt :: arms) => do pure (.mk [] (.matchT (← toExpr tgt) (← arms.mapM toArm)))
  | .list (.atom "matchs" :: tgt :: arms) => do pure (.mk [] (.matchST (← toExpr tgt) (← arms.mapM toSArm)))
  | .list [.atom "ifonly", c, t] => do
    -- a unit-valued body that is just an if-only statement
    pure (.mk [.ifonly (← toExpr c) (← toBody t)] (.ret (.lit .unit)))
  | _ => do pure (.mk [] (.ret (← toExpr e)))

partial def toStmt (s : Sx) : Conv Stmt :=
  match s with
  | .list [.atom "let", .atom x, rhs] => do pure (.let1 x (← toExpr rhs))
  | .list [.atom "let2", .atom x, .atom y, rhs] => do pure (.let2 x y (← toExpr rhs))
  | .list [.atom "do", .list [.atom "ifonly", c, t]] => do pure (.ifonly (← toExpr c) (← toBody t))
  | .list [.atom "do", rhs] => do pure (.exec (← toExpr rhs))
  | _ => throw "stmt"
end

def trDef : FunDef :=
  { name := "tr$", params := ["tag", "v"],
    body := .mk [.exec (.prim .println [.var "tag"])] (.ret (.var "v")) }

def toProg (funs : List Sx) : Conv Prog := do
  let fs ← funs.mapM (fun f => match f with
    | .list [.atom "fun", .atom n, .list ps, body] => do
      pure ({ name := n, params := ps.filterMap Sx.asAtom, body := ← toBody body } : FunDef)
    | _ => throw "fun")
  pure (trDef :: fs)

def fuel : Nat := 4000

def handle (payload : List Sx) : Sx :=
  match payload with
  | [.list funs, .atom entry] =>
    match toProg funs with
    | .error why => .list [.atom "outside-fragment", .atom why]
    | .ok P =>
      match runProg P entry fuel with
      | none => .list [.atom "stuck"]
      | some (tr, _) =>
        let out := String.join tr
        match grunProg (lowerProg P) entry fuel with
        | some (gtr, _) =>
          if String.join gtr == out then .atom (Sx.encStr out)
          else .list [.atom "sim-mismatch", .atom (Sx.encStr out), .atom (Sx.encStr (String.join gtr))]
        | none => .list [.atom "sim-mismatch", .atom (Sx.encStr out), .atom "go-core-stuck"]
  | _ => .atom "bad-line"

end Oracle.SemStream
