/-
S-expressions: the line format shared by the Go harness and the oracle.
atom  = any run of characters other than blanks and parentheses
list  = "(" items separated by single blanks ")"
Byte strings travel as atoms `x<hex>` (`x` alone is the empty string).
-/
namespace Oracle

inductive Sx where
  | atom (s : String) : Sx
  | list (xs : List Sx) : Sx
deriving Repr, Inhabited, BEq

namespace Sx

partial def toStr : Sx → String
  | .atom s => s
  | .list xs => "(" ++ " ".intercalate (xs.map toStr) ++ ")"

instance : ToString Sx := ⟨toStr⟩

/-- tokenise into "(" , ")" and atoms -/
def tokens (s : String) : List String := Id.run do
  let mut out : Array String := #[]
  let mut cur : String := ""
  for c in s.toList do
    if c == '(' || c == ')' then
      if cur != "" then out := out.push cur; cur := ""
      out := out.push (String.singleton c)
    else if c == ' ' || c == '\t' || c == '\n' || c == '\r' then
      if cur != "" then out := out.push cur; cur := ""
    else cur := cur.push c
  if cur != "" then out := out.push cur
  return out.toList

/-- parse one expression from a token list (fuel = number of tokens) -/
def parseOne : Nat → List String → Option (Sx × List String)
  | 0, _ => none
  | _ + 1, [] => none
  | fuel + 1, t :: rest =>
    if t == "(" then parseList fuel rest []
    else if t == ")" then none
    else some (.atom t, rest)
where
  parseList : Nat → List String → List Sx → Option (Sx × List String)
    | 0, _, _ => none
    | _ + 1, [], _ => none
    | fuel + 1, t :: rest, acc =>
      if t == ")" then some (.list acc.reverse, rest)
      else match parseOne fuel (t :: rest) with
        | none => none
        | some (x, rest') => parseList fuel rest' (x :: acc)

def parse (s : String) : Option Sx :=
  let ts := tokens s
  match parseOne (2 * ts.length + 2) ts with
  | some (x, []) => some x
  | _ => none

def hexDigit (n : Nat) : Char := if n < 10 then Char.ofNat (48 + n) else Char.ofNat (87 + n)

def hexVal (c : Char) : Option Nat :=
  if '0' ≤ c ∧ c ≤ '9' then some (c.toNat - 48)
  else if 'a' ≤ c ∧ c ≤ 'f' then some (c.toNat - 87)
  else none

/-- bytes → `x<hex>` -/
def encBytes (bs : List UInt8) : String :=
  "x" ++ String.ofList (bs.flatMap (fun b => [hexDigit (b.toNat / 16), hexDigit (b.toNat % 16)]))

def decHex : List Char → Option (List UInt8)
  | [] => some []
  | [_] => none
  | a :: b :: rest => do
    let x ← hexVal a
    let y ← hexVal b
    let r ← decHex rest
    pure (UInt8.ofNat (x * 16 + y) :: r)

/-- `x<hex>` → bytes -/
def decBytes (s : String) : Option (List UInt8) :=
  match s.toList with
  | 'x' :: rest => decHex rest
  | _ => none

def encStr (s : String) : String := encBytes s.toUTF8.toList

def decStr (s : String) : Option String := do
  let bs ← decBytes s
  String.fromUTF8? (ByteArray.mk bs.toArray)

def asInt : Sx → Option Int
  | .atom s => s.toInt?
  | _ => none

def asNat : Sx → Option Nat
  | .atom s => s.toNat?
  | _ => none

def asAtom : Sx → Option String
  | .atom s => some s
  | _ => none

def asList : Sx → Option (List Sx)
  | .list xs => some xs
  | _ => none

end Sx
end Oracle
