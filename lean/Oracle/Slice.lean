import Oracle.Sexp
import Folang.Model.SliceHistory
/-
Oracle stream `slice.hist`: replays a history of slice-package calls on the model
(`Folang.GoSlice.step`) and prints, after every call, the return value, the contents of every
pool value and the canonical aliasing signature of every pool value.
-/
namespace Oracle.Slice
open Folang.GoSlice Oracle

inductive Val where
  | int (i : Int)
  | str (s : String)
  | bool (b : Bool)
  | tup (a b : Val)
deriving DecidableEq, Repr, Inhabited

def Val.toSx : Val → Sx
  | .int i => .atom (toString i)
  | .str s => .atom (Sx.encStr s)
  | .bool b => .atom (if b then "true" else "false")
  | .tup a b => .list [.atom "t", a.toSx, b.toSx]

partial def Val.ofSx : Sx → Option Val
  | .atom "true" => some (.bool true)
  | .atom "false" => some (.bool false)
  | .atom s =>
    if s.startsWith "x" then (Sx.decStr s).map .str
    else s.toInt?.map .int
  | .list [.atom "t", a, b] => do
    let x ← Val.ofSx a
    let y ← Val.ofSx b
    pure (.tup x y)
  | _ => none

def Val.asInt : Val → Int
  | .int i => i
  | .str s => s.utf8ByteSize
  | .bool b => if b then 1 else 0
  | .tup _ _ => 0

def Val.asStr : Val → String
  | .str s => s
  | _ => ""

/-- ordering used by Sort: ints by value, strings bytewise -/
def Val.le : Val → Val → Bool
  | .int a, .int b => a ≤ b
  | .str a, .str b => a ≤ b
  | _, _ => true

/-! named function families; the Go harness implements the same functions under the same names -/
def mapFn : String → Val → Val
  | "inc", v => .int (v.asInt + 1)
  | "dbl", v => .int (2 * v.asInt)
  | "neg", v => .int (- v.asInt)
  | "sq", v => .int (v.asInt * v.asInt)
  | "const7", _ => .int 7
  | "appx", v => .str (v.asStr ++ "x")
  | "dup", v => .str (v.asStr ++ v.asStr)
  | "first", v => .str (String.ofList (v.asStr.toList.take 1))
  | "constq", _ => .str "q"
  | _, v => v

def mapiFn : String → Int → Val → Val
  | "addi", i, v => .int (v.asInt + i)
  | "idx", i, _ => .int i
  | "muli", i, v => .int (v.asInt * i)
  | "tagi", i, v => .str (v.asStr ++ toString i)
  | "idxs", i, _ => .str (toString i)
  | _, _, v => v

def predFn : String → Val → Bool
  | "even", v => v.asInt % 2 == 0
  | "pos", v => v.asInt > 0
  | "lt3", v => v.asInt < 3
  | "all", _ => true
  | "none", _ => false
  | "nonempty", v => v.asStr != ""
  | "hasa", v => v.asStr.toList.contains 'a'
  | "lenlt2", v => v.asStr.utf8ByteSize < 2
  | _, _ => false

/-- sort keys (ints) -/
def keyFn : String → Val → Int
  | "id", v => v.asInt
  | "neg", v => - v.asInt
  | "mod3", v => v.asInt % 3
  | "len", v => v.asStr.utf8ByteSize
  | _, _ => 0

def foldFn : String → Val → Val → Val
  | "sum", acc, v => .int (acc.asInt + v.asInt)
  | "cnt", acc, _ => .int (acc.asInt + 1)
  | "last", _, v => v
  | "sub", acc, v => .int (acc.asInt - v.asInt)
  | "cat", acc, v => .str (acc.asStr ++ v.asStr)
  | "rcat", acc, v => .str (v.asStr ++ acc.asStr)
  | _, acc, _ => acc

def foldIni : String → Val
  | "cat" => .str ""
  | "rcat" => .str ""
  | "last" => .int (-1)
  | _ => .int 0

/-- the collect callback: which pool value it returns for element `e` -/
def collectFn (name : String) (k poolSize : Nat) (e : Val) : Nat :=
  match name with
  | "const" => k
  | "mod" => if poolSize = 0 then 0 else (e.asInt.natAbs + k) % poolSize
  | _ => k

def sliceSx (h : Heap Val) (s : Slice) : Sx := .list ((read h s).map Val.toSx)

/-! canonical aliasing signature -/

/-- pseudo address range of a slice with cap > 0 -/
def range (s : Slice) : Option (Nat × Nat) :=
  match s with
  | .nil => none
  | .mk a o _ c => if c = 0 then none else some (a * 1000000 + o, a * 1000000 + o + c)

/-- merge overlapping ranges (input sorted by start) into components (minStart, maxEnd) -/
def components (rs : List (Nat × Nat)) : List (Nat × Nat) :=
  let sorted := rs.mergeSort (fun a b => a.1 ≤ b.1)
  (sorted.foldl (fun (acc : List (Nat × Nat)) r =>
    match acc with
    | [] => [r]
    | (lo, hi) :: rest => if r.1 < hi then (lo, max hi r.2) :: rest else r :: acc) []).reverse

def sigOf (pool : List Slice) : List String := Id.run do
  let comps := components (pool.filterMap range)
  let mut seen : List Nat := []      -- component starts in order of first occurrence
  let mut out : Array String := #[]
  for s in pool do
    match s with
    | .nil => out := out.push "nil"
    | .mk _ _ l c =>
      match range s with
      | none => out := out.push ("z:" ++ toString l)
      | some (lo, _) =>
        let comp := (comps.find? (fun cp => cp.1 ≤ lo ∧ lo < cp.2)).getD (lo, lo)
        if !seen.contains comp.1 then seen := seen ++ [comp.1]
        let k := (seen.idxOf comp.1)
        out := out.push s!"c{k}+{lo - comp.1}:{l}:{c}"
  return out.toList

/-! history execution -/

structure Obs where
  cap : Nat := 0
  res : List Val := []

def parseObs : Sx → Obs
  | .list [c] => { cap := (Sx.asNat c).getD 0 }
  | .list [c, .list rs] => { cap := (Sx.asNat c).getD 0, res := rs.filterMap Val.ofSx }
  | _ => {}

def exact : Growth := fun _ n => n

/-- pad the result's array so that its capacity is the observed one -/
def adoptCap (before : Nat) (st : HState Val) (obsCap : Nat) : HState Val × Bool :=
  match st.pool.getLast? with
  | some (.mk a o l c) =>
    if a < before then (st, true)                 -- not fresh: capacity is determined by the model
    else if obsCap < l then (st, false)
    else
      let arr := arrOf st.heap a
      let arr' := arr.take (o + l) ++ List.replicate (obsCap - l) default
      ({ pool := st.pool.dropLast ++ [.mk a o l obsCap], heap := st.heap.set a arr' }, c ≤ obsCap ∨ true)
  | _ => (st, true)

def isSortedPerm (key : Val → Val → Bool) (inp out : List Val) : Bool :=
  out.length == inp.length &&
  inp.all (fun x => inp.count x == out.count x) &&
  (out.zip out.tail).all (fun (a, b) => key a b)

def panicSx : Panic → Sx
  | .index => .list [.atom "panic", .atom "index"]
  | .msg _ => .list [.atom "panic", .atom "msg"]

def valRet {ρ : Type} (r : Except Panic ρ) (f : ρ → Sx) : Sx :=
  match r with
  | .error p => panicSx p
  | .ok v => .list [.atom "v", f v]

def boolSx (b : Bool) : Sx := .atom (if b then "true" else "false")

/-- run one op; returns the new state and the `ret` expression -/
def runOp (zero : Val) (st : HState Val) (name : String) (args : List Sx) (obs : Obs) : HState Val × Sx :=
  let _ : Inhabited Val := ⟨zero⟩
  let nat (k : Nat) : Nat := ((args.getD k (.atom "0")).asNat).getD 0
  let int (k : Nat) : Int := ((args.getD k (.atom "0")).asInt).getD 0
  let atom (k : Nat) : String := ((args.getD k (.atom "")).asAtom).getD ""
  let val (k : Nat) : Val := (Val.ofSx (args.getD k (.atom "0"))).getD zero
  let before := st.heap.length
  let sliceOp (op : Op Val) : HState Val × Sx :=
    let n0 := st.pool.length
    let st1 := step st (exact, op)
    if st1.pool.length = n0 then
      -- the call panicked: recompute which panic by running the function itself
      (st1, .list [.atom "panic"])
    else
      let (st2, ok) := adoptCap before st1 obs.cap
      if ok then (st2, .list (.atom "s" :: (read st2.heap (st2.get n0)).map Val.toSx))
      else (st2, .list [.atom "capmismatch"])
  match name with
  | "new" => sliceOp .new
  | "nil" => ({ st with pool := st.pool ++ [.nil] }, .list [.atom "s"])
  | "lit" =>
    let vs := args.filterMap Val.ofSx
    if vs.isEmpty then sliceOp .new
    else
      let (s, h) := allocWith st.heap vs 0
      ({ pool := st.pool ++ [s], heap := h }, .list (.atom "s" :: vs.map Val.toSx))
  | "tail" => sliceOp (.tail (nat 0))
  | "poplast" => sliceOp (.popLast (nat 0))
  | "take" => sliceOp (.take (int 0) (nat 1))
  | "skip" => sliceOp (.skip (int 0) (nat 1))
  | "map" => sliceOp (.map (mapFn (atom 0)) (nat 1))
  | "mapi" => sliceOp (.mapi (mapiFn (atom 0)) (nat 1))
  | "filter" => sliceOp (.filter (predFn (atom 0)) (nat 1))
  | "sort" =>
    let inp := read st.heap (st.get (nat 0))
    if isSortedPerm Val.le inp obs.res then sliceOp (.sortWith (fun _ => obs.res) (nat 0))
    else (st, .list [.atom "badsort"])
  | "sortby" =>
    let inp := read st.heap (st.get (nat 1))
    let k := keyFn (atom 0)
    if isSortedPerm (fun a b => k a ≤ k b) inp obs.res then sliceOp (.sortWith (fun _ => obs.res) (nat 1))
    else (st, .list [.atom "badsort"])
  | "pushlast" => sliceOp (.pushLast (val 0) (nat 1))
  | "pushhead" => sliceOp (.pushHead (val 0) (nat 1))
  | "collect" => sliceOp (.collect (collectFn (atom 0) (nat 1) st.pool.length) (nat 2))
  | "concat" => sliceOp (.concat (args.filterMap Sx.asNat))
  | "append" => sliceOp (.append (nat 0) (nat 1))
  | "distinct" => sliceOp (.distinct (nat 0))
  | "zip" =>
    -- result is printed but not pooled (its element type differs)
    match Zip exact Val.tup st.heap (st.get (nat 0)) (st.get (nat 1)) with
    | .error p => (st, panicSx p)
    | .ok (r, h) => ({ st with heap := h }, .list (.atom "s" :: (read h r).map Val.toSx))
  | "length" => (st, .list [.atom "v", .atom (toString (Length (st.get (nat 0))))])
  | "len" => (st, .list [.atom "v", .atom (toString (Len (st.get (nat 0))))])
  | "isempty" => (st, .list [.atom "v", boolSx (IsEmpty (st.get (nat 0)))])
  | "isnotempty" => (st, .list [.atom "v", boolSx (IsNotEmpty (st.get (nat 0)))])
  | "item" => (st, valRet (Item st.heap (int 0) (st.get (nat 1))) Val.toSx)
  | "head" => (st, valRet (Head st.heap (st.get (nat 0))) Val.toSx)
  | "last" => (st, valRet (Last st.heap (st.get (nat 0))) Val.toSx)
  | "forall" => (st, valRet (Forall (predFn (atom 0)) st.heap (st.get (nat 1))) boolSx)
  | "forany" => (st, valRet (Forany (predFn (atom 0)) st.heap (st.get (nat 1))) boolSx)
  | "tryfind" => (st, valRet (TryFind (predFn (atom 0)) st.heap (st.get (nat 1)))
      (fun r => .list [r.1.toSx, boolSx r.2]))
  | "fold" => (st, valRet (Fold (foldFn (atom 0)) (foldIni (atom 0)) st.heap (st.get (nat 1))) Val.toSx)
  | "iter" => (st, valRet (Iter (fun e => e) st.heap (st.get (nat 0))) (fun tr => .list (tr.map Val.toSx)))
  | _ => (st, .list [.atom "bad-op"])

/-- which panic a slice-returning op raised (the history step only says "unchanged") -/
def panicKind (zero : Val) (st : HState Val) (name : String) (args : List Sx) : Sx :=
  let _ : Inhabited Val := ⟨zero⟩
  let nat (k : Nat) : Nat := ((args.getD k (.atom "0")).asNat).getD 0
  let int (k : Nat) : Int := ((args.getD k (.atom "0")).asInt).getD 0
  let k (r : Except Panic (St Val)) : Sx := match r with | .error p => panicSx p | .ok _ => .list [.atom "panic", .atom "?"]
  let k' (r : Except Panic Slice) : Sx := match r with | .error p => panicSx p | .ok _ => .list [.atom "panic", .atom "?"]
  match name with
  | "tail" => k' (Tail (st.get (nat 0)))
  | "poplast" => k' (PopLast (st.get (nat 0)))
  | "take" => k (Take exact st.heap (int 0) (st.get (nat 1)))
  | "skip" => k (Skip exact st.heap (int 0) (st.get (nat 1)))
  | _ => .list [.atom "panic", .atom "?"]

def handle (payload : List Sx) : Sx :=
  match payload with
  | .atom ety :: ops =>
    let zero : Val := if ety == "str" then .str "" else .int 0
    let (_, outs) := ops.foldl (fun (acc : HState Val × Array Sx) op =>
      let (st, outs) := acc
      match op with
      | .list [.atom name, .list args, obs] =>
        let (st', ret) := runOp zero st name args (parseObs obs)
        let ret := if ret == .list [.atom "panic"] then panicKind zero st name args else ret
        let poolSx := Sx.list (st'.pool.map (sliceSx st'.heap))
        let sig := Sx.list ((sigOf st'.pool).map .atom)
        (st', outs.push (.list [ret, poolSx, sig]))
      | _ => (st, outs.push (.atom "bad-op"))) (HState.init, #[])
    .list outs.toList
  | _ => .atom "bad-line"

end Oracle.Slice
