import Oracle.Sexp
import Folang.Model.Tokenizer
/-
Oracle streams over the tokenizer model:
  tok.scan x<bytes>   → (KIND beginOff len x<sval> ival) | (panic)        scanTokenAt(buf, 0)
  tok.stream x<bytes> → ((KIND begin len col)…) [panic]                    newTkz + tkzNext to EOF
-/
namespace Oracle.Tokenizer
open Folang.Tokenizer Folang.Literal Oracle

def bytesOf (x : Sx) : Bytes := match x with
  | .atom s => (Sx.decBytes s).getD []
  | _ => []

def scanSx (s : Bytes) : Sx :=
  match scanTokenAt s with
  | .panic => .list [.atom "panic"]
  | .tok t =>
    let sv := if t.kind == "STRING" || t.kind == "SINTERP" || t.kind == "IDENTIFIER" then t.sval else []
    .list [.atom t.kind, .atom (toString t.beginOff), .atom (toString t.len), .atom (Sx.encBytes sv), .atom (toString t.ival)]

def tkzSx (z : Tkz) : Sx :=
  .list [.atom z.cur.kind, .atom (toString z.bpos), .atom (toString z.cur.len), .atom (toString z.col)]

def stream (buf : Bytes) : Sx :=
  match newTkz buf with
  | none => .list [.atom "panic"]
  | some z0 =>
    let rec go (fuel : Nat) (z : Tkz) (acc : Array Sx) : Array Sx :=
      match fuel with
      | 0 => acc.push (.atom "out-of-fuel")
      | fuel + 1 =>
        if z.cur.kind == "EOF" then acc
        else match tkzNext z with
          | none => acc.push (.atom "panic")
          | some z' => go fuel z' (acc.push (tkzSx z'))
    .list (go (buf.length + 2) z0 #[tkzSx z0]).toList

def handle (stream' : String) (payload : List Sx) : Sx :=
  match stream', payload with
  | "tok.scan", [s] => scanSx (bytesOf s)
  | "tok.stream", [s] => stream (bytesOf s)
  | _, _ => .atom "bad-line"

end Oracle.Tokenizer
