import Oracle.Sexp
import Folang.Model.TypeExpr
/-
Oracle stream `c15.type`: (env) (tokens)  →  (ok x<hex of Go type text>) | (err)
env entries: (sourceName kind goName arity); tokens: (id x) lp rp lb rb star arrow lt gt comma dot
-/
namespace Oracle.TypeExpr
open Folang.TypeExpr Oracle

def tokOf : Sx → Option TTok
  | .list [.atom "id", .atom s] => some (.id s)
  | .atom "lp" => some .lp | .atom "rp" => some .rp | .atom "lb" => some .lb | .atom "rb" => some .rb
  | .atom "star" => some .star | .atom "arrow" => some .arrow | .atom "lt" => some .lt | .atom "gt" => some .gt
  | .atom "comma" => some .comma | .atom "dot" => some .dot
  | .list [.atom "other", .atom s] => some (.other s)
  | _ => none

def envOf (x : Sx) : TEnv := match x with
  | .list es => es.filterMap (fun e => match e with
    | .list [.atom n, .atom k, .atom g, a] => some (n, k, g, (Sx.asNat a).getD 0)
    | _ => none)
  | _ => []

def handle (payload : List Sx) : Sx :=
  match payload with
  | [env, .list toks] =>
    match toks.mapM tokOf with
    | none => .atom "bad-token"
    | some ts =>
      match parseType (envOf env) (4 * ts.length + 8) ts with
      | some (t, []) => .list [.atom "ok", .atom (Sx.encStr (toGo t))]
      | some (t, rest) => .list [.atom "ok-partial", .atom (Sx.encStr (toGo t)), .atom (toString rest.length)]
      | none => .list [.atom "err"]
  | _ => .atom "bad-line"

end Oracle.TypeExpr
