import Oracle.Sexp
import Folang.Model.Unify
/-
Stream c02.graph: nparams ((l r)…) result x<source, ignored> → (sig n (p ty…) (r ty)) | (clash) | (fuel)
ty = (v name) | (c head ty…).  Parameter i has the type variable P<i>.  The answer is the principal
signature computed by the certified reference unifier (Props/C02Unify.lean: unifyC_sound,
unifyC_principal): parameter and result types under the most general unifier, leftover variables
renamed to their index of first occurrence (parameters, then result).
-/
namespace Oracle.UnifyStream
open Oracle Folang.Infer Folang.Unify

partial def tyOf : Sx → Option ITy
  | .list [.atom "v", .atom n] => some (.var n)
  | .list (.atom "c" :: .atom h :: args) => do
    let as ← args.mapM tyOf
    pure (.con h as)
  | _ => none

partial def tySx : ITy → Sx
  | .var n => .list [.atom "v", .atom n]
  | .con h as => .list (.atom "c" :: .atom h :: as.map tySx)

mutual
def tySize : ITy → Nat
  | .var _ => 1
  | .con _ as => 1 + tysSize as
def tysSize : List ITy → Nat
  | [] => 0
  | t :: ts => tySize t + tysSize ts
end

def handle (payload : List Sx) : Sx :=
  match payload with
  | [.atom n, .list eqs, res, _src] =>
    match n.toNat?, tyOf res, eqs.mapM (fun e => match e with
        | .list [l, r] => do let a ← tyOf l; let b ← tyOf r; pure (a, b)
        | _ => none) with
    | some k, some rt, some es =>
      -- generous fuel: every step either removes a variable or a constructor pair
      let size := es.foldl (fun acc e => acc + tySize e.1 + tySize e.2) 0
      match unifyC (4 * size * (size + 2) + 50) es with
      | .ok acc =>
        let ps := (List.range k).map (fun i => ITy.var ("P" ++ toString i))
        let (cnt, tys) := principal acc (ps ++ [rt])
        .list [.atom "sig", .atom (toString cnt), .list (.atom "p" :: (tys.take k).map tySx),
               .list (.atom "r" :: (tys.drop k).map tySx)]
      | .clash => .list [.atom "clash"]
      -- the step bound was not enough (unify_total: a larger one would answer); the reference has no
      -- answer for this graph, which is counted and not compared
      | .fuel => .list [.atom "outside-fragment", .atom "step-bound"]
    | _, _, _ => .atom "bad-line"
  | _ => .atom "bad-line"

end Oracle.UnifyStream
