import Oracle.Sexp
import Oracle.Slice
import Oracle.Lib
import Oracle.Equal
import Oracle.Prec
import Oracle.Exhaust
import Oracle.TypeExpr
import Oracle.Literal
import Oracle.SampleMd
import Oracle.Tokenizer
import Oracle.Driver
import Oracle.FSem
import Oracle.Sem
import Oracle.Unify
import Oracle.Offside
import Oracle.Resolve
import Oracle.Decl
import Oracle.Key
open Oracle

/-- a line is `(<stream> payload...)`; the answer is one S-expression -/
def handle (line : String) : String :=
  match Sx.parse line with
  | some (.list (.atom stream :: payload)) =>
    match stream with
    | "echo" => toString (Sx.list payload)
    | "slice.hist" => toString (Oracle.Slice.handle payload)
    | "c11.scan" | "c11.interp" | "c11.unquote" | "c11.sprintf" | "c11.lit" => toString (Oracle.Literal.handle stream payload)
    | "tok.scan" | "tok.stream" => toString (Oracle.Tokenizer.handle stream payload)
    | "c16.driver" => toString (Oracle.Driver.handle payload)
    | "c01.prog" => toString (Oracle.FSem.handle payload)
    | "sem.prog" => toString (Oracle.SemStream.handle true payload)
    | "sem.lower" => toString (Oracle.SemStream.handleLower true payload)
    | "sem.progT" => toString (Oracle.SemStream.handle false payload)
    | "sem.lowerT" => toString (Oracle.SemStream.handleLower false payload)
    | "c16.resolve" => toString (Oracle.ResolveStream.handle payload)
    | "c02.graph" => toString (Oracle.UnifyStream.handle payload)
    | "c07.key" => toString (Oracle.Key.handle payload)
    | "c06.block" => toString (Oracle.OffsideStream.handle payload)
    | "c03.union" => toString (Oracle.Decl.handle payload)
    | "c03.record" => toString (Oracle.Decl.handleRecord payload)
    | "c18.run" => toString (Oracle.SampleMd.handle payload)
    | "c15.type" => toString (Oracle.TypeExpr.handle payload)
    | "c09.match" => toString (Oracle.Exhaust.handle payload)
    | "c08.chain" => toString (Oracle.Prec.handle payload)
    | "eq.pair" => toString (Oracle.Equal.handle payload)
    | "lib.dict" => toString (Oracle.Lib.dictStream payload)
    | "lib.str" => toString (Oracle.Lib.strCall payload)
    | "lib.buf" => toString (Oracle.Lib.bufStream payload)
    | "lib.tos" => toString (Oracle.Lib.tosCall payload)
    | _ => "bad-stream"
  | _ => "bad-line"

partial def loop (hin : IO.FS.Stream) (hout : IO.FS.Stream) : IO Unit := do
  let line ← hin.getLine
  if line.isEmpty then return ()
  hout.putStrLn (handle line)
  loop hin hout

def main : IO Unit := do
  let hin ← IO.getStdin
  let hout ← IO.getStdout
  loop hin hout
  hout.flush
