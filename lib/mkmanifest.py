#!/usr/bin/env python3
"""Regenerates /verif/MANIFEST.json from the table below (run after adding a property check)."""
import json, os
V = os.path.dirname(os.path.dirname(os.path.abspath(__file__)))
ALL = ["C%02d" % i for i in range(1, 19)]

CLAIMED = {
 "C11": dict(
   text="Machine-checked proof (Lean 4, full after fix 20818f3): C11_plain, C11_raw, C11_interp, C11_interp_raw prove for EVERY literal body made of well-formed pieces (arbitrary bytes incl. %, braces, newline, tab and multi-byte sequences; the escapes \\n \\t \\\\ \\\"; \\{ \\}; holes) that following the literal through the byte-level models of the fc scanner, ParseSInterP, the emitted Go string literal, Go's unquoting and fmt.Sprintf yields exactly the denoted text with holes filled in order (9 per-piece stage lemmas, induction over the body). Witness theorems unfixed_percent / unfixed_brace_escape show the old ParseSInterP violates it. Tied to /repo by streams against the real scanTokenAt and ParseSInterP (every byte value in each form, random/truncated bodies), by strconv.Unquote / fmt.Sprintf for the assumed Go semantics, and end to end by generated programs printing literals (real pipeline, compiled, run). Known finding D11: float holes render %f.",
   design="§5 C11", technique="Lean 4 theorems (per-piece stage homomorphism lemmas + induction over literal bodies) + scanner/Go-semantics correspondence + compiled end-to-end programs",
   note="Trusted: Lean kernel; assumed Go semantics of interpreted string literals (4 escapes) and Sprintf (%s, %%) — both differentially tested; UTF-8 validity of source assumed; display form of hole values is a parameter (checked end to end for int/string/bool)."),
 "C12": dict(
   text="Machine-checked proof (Lean 4, full): step_frame/history_frame prove for EVERY history of slice-package calls, every pool value, every growth policy of append and every callback that each slice value keeps the contents it had when produced, on a statement-by-statement model of all 29 exported functions over a Go-style heap (array id/offset/len/cap). The witness theorem pushLast_unfixed_violates shows the statement is false for the code before fix 20f0992. Tied to /repo on every run by regenerated facts (function inventory + aliasing-relevant statements, go/ast) and by the slice.hist correspondence (contents of all pool values, return values/panics, canonical aliasing signature) against the real package.",
   design="§5 C12", technique="Lean 4 theorem (frame invariant by induction over histories) + regenerated go/ast facts + model/implementation correspondence",
   note="Trusted: Lean kernel (propext, Quot.sound, Classical.choice only); the heap model of Go slices/append (any growth policy), slices.SortFunc as an in-place permutation parameter; the go/ast extractor; the differential harness. Integers unbounded in the model."),
 "C13": dict(
   text="Machine-checked proof (Lean 4, full): one *_spec theorem per exported function of pkg/slice (40 theorems) proving, for all heaps, all valid slice values (any offset/len/cap), all element types and callbacks, that the function returns exactly its List specification (map, mapIdx, filter, flatMap, flatten, ++, take/drop, head?/tail/getLast?/dropLast, zipWith, foldl, all/any/find?, first-occurrence de-duplication, sorted permutation) under exactly the domain guard the Go code has, plus *_panics theorems for the error branches. Tied to /repo by the regenerated function inventory and by exhaustive small-slice x every-function x every-parameter correspondence runs against the real package.",
   design="§5 C13", technique="Lean 4 theorems (loop invariants over a Go slice heap model) + exhaustive small-domain correspondence with the real package",
   note="Trusted: Lean kernel; the heap model; slices.SortFunc assumed to leave an ascending permutation (checked on every observed call); the named callback family is implemented twice (Go, Lean). Integers unbounded in the model."),
 "C01": dict(
   text="Machine-checked proof (Lean 4, PARTIAL): the full statement C01_full (a verified-compiler theorem for parser + inference + emitter) is stated, NOT proved. Proved, for all inputs: the mechanisms named by the property's anchors — operator grouping (C08 climb_eq_group), thunked if/else branches and pipe = application (C14 ifElse_*, ifOnly_false, pipe_spec), match dispatch to the constructing case (C09 dispatch_total), literals and interpolation (C11_*) — and the partial-application lowering: papp_agrees_when_pure (trace and values preserved for effect-free given arguments, any body, any later calls) with the witness papp_effects_late for known finding D9. The reference semantics is executable Lean (strict, left-to-right, lexically scoped big-step evaluator with an output trace) and is compared on every run with the stdout of the real pipeline's output, compiled and run, on type-directed random programs over the documented subset + a boundary corpus. Known findings D9, D12, D17.",
   design="§5 C01", technique="Lean 4 theorems on the lowering mechanisms + Lean reference evaluator vs compiled output of the real pipeline on generated programs (translation validation as the tie/search; no end-to-end compiler proof)",
   note="Trusted: Lean kernel; the reference evaluator as the meaning of abstract programs; the generator's renderer; the Go toolchain. Not proved: text->IR correctness, inference, emission as a whole."),
 "C03": dict(
   text="Machine-checked proof (Lean 4, full for the emitters as structural models): record_shape (struct with the same field names and mapped types in order), union_interface / union_case_struct (interface U, struct U_C whose payload is field Value iff there is a payload), ctor_is_func / ctor_is_var (New_U_C is a function iff the case has a payload or U is generic), ctor_ref_matches_decl (what a constructor reference resolves to agrees with what is declared), qualified_name, call_full / call_partial / call_partial_arity / call_too_many (direct call with arguments in source order; otherwise a closure whose parameters are exactly the missing parameter types named _r0…, result = declared result, no return when unit), root_func_shape, unit_result_is_no_result — for ALL names, type parameters, types and arities. End to end it is tied by compiling the real pipeline's output together with generated hand-style Go that uses the documented names and implements the package_info functions, and by reading union declarations back with go/parser against the model.",
   design="§5 C03", technique="Lean 4 theorems on structural models of the emitters + compiled Go clients against the real pipeline's output",
   note="Trusted: Lean kernel; structural (not textual) emitter models; C15 model for the types; the Go toolchain."),
 "C05": dict(
   text="Machine-checked proof (Lean 4) of every enumeration consumer + regenerated inventory: eqsUnion_order_indep, rsRegisterNewEI_order_indep, piRegAll_order_indep, lookupRecFac_order_indep (after fix 5aa1ab1; witness lookup_unfixed_order_dependent for the old code), exhaustive_decision_order_indep prove for ALL pairs of enumeration orders that what the rest of the compiler observes (dictionary as a finite map, accept/reject decision, chosen record) is the same; fact_enumSites proves by decide that the REGENERATED list of dict.Keys/Values/KVs calls, map range loops, goroutines, time/rand/environment/%p uses in fc, pkg and cmd is exactly these consumers. The composition into byte-identical output is argued (DESIGN.md) and tied by running fc built against an adversarial permuting dict package (overlay) under several seeds and the stock binary repeatedly on a corpus incl. the 12 compiler sources.",
   design="§5 C05", technique="Lean 4 order-independence theorems per consumer + decide over a regenerated site inventory + permuted-dictionary metamorphic runs",
   note="Trusted: Lean kernel; dict model of C14; go/ast site extractor (syntactic); composition argued, not proved; slices.SortFunc by name returns the unique ascending arrangement (names are distinct keys)."),
 "C06": dict(
   text="Machine-checked proof (Lean 4, PARTIAL): col_invariant proves for EVERY byte string and every state reachable by tkzNext from newTkz in the byte-level tokenizer model (tied to the real tokenizer incl. columns on every run) that the column the parser sees is current.begin minus the end of the last EOL token: exactly the physical column unless a newline hides inside a comment or literal (the forced hypothesis: known findings D10, D13). The full statement C06_full (emitted Go invariant under every re-layout) is stated, NOT proved; it is tied by the layout stream: each abstract program is rendered under many random layouts (independent indentation per block, blank lines, trailing blanks, line/block comments, one-line vs multi-line if, let right-hand side / arm body on the same or next line, pipeline broken before any |>) through the real compiler and the Go must be byte-identical; plus the dedent test. Known finding D15 (dedented operator line).",
   design="§5 C06", technique="Lean 4 invariant proof on the tokenizer model + layout metamorphic runs through the real compiler (parser-level theorems not built)",
   note="Trusted: Lean kernel; tokenizer model correspondence; the layout renderer of the generator. The parser's offside logic is not modelled."),
 "C07": dict(
   text="Machine-checked proof (Lean 4, PARTIAL): over the finite-map model of the long-lived state (scope dictionaries of the single ParseState, global type-info dictionaries keyed by encodedKey) lookup_frame, register_swap, register_perm, drop_unreferenced and split_files prove for all states and definition sequences that registering unrelated / reordered / file-split definitions does not change what any other name resolves to; typeinfo_frame_partial proves the same for the global dictionaries under injectivity of encodedKey, a hypothesis forced by the witness encodedKey_collision (known finding D14). fact_fcGlobals proves by decide that the REGENERATED list of package-level variables of fc is exactly the modelled state. The translation of a definition itself is not modelled: that it reads the state only through these lookups is tied by metamorphic runs of the real compiler (swap, drop, insert, split into files; per-declaration Go compared up to _vN numbering) and a real-binary run for gen_X.go naming / .foi handling.",
   design="§5 C07", technique="Lean 4 frame/commutation theorems on the state model + regenerated globals inventory + metamorphic runs of the real compiler",
   note="Trusted: Lean kernel; dict model; go/parser declaration cutting and _vN renumbering; the per-definition translation is abstract."),
 "C08": dict(
   text="Machine-checked proof (Lean 4): climb_eq_group proves for EVERY operator chain (any length, operators, operands, any precedence table) that the recursion scheme of parseExprWithPrec/parseBinAfter (minPrec, Precedence+1 for the right operand) returns the reference grouping (insertion into the right spine = grouping by rank, left-associative; validated by group_flatten, group_canon); table_is_published proves by decide that the REGENERATED binOpMap equals the published table, fact_precedenceUses pins the comparison and the +1. Partial at token level: the token parser with psSkipEOL and the term parser (application, not, parentheses) is an executable model tied by execution (every oracle answer re-checked against group) and by the c08.chain correspondence with the real parser+emitter (all chains of <=3/4 of the 12 operators x 3 operand shapes exhaustively, random chains with pipes/not/parens/line breaks), not by a Lean refinement proof.",
   design="§5 C08", technique="Lean 4 theorem (precedence climbing = reference grouping, induction on fuel) + decide over regenerated table + exhaustive/ random correspondence through the real parser and emitter",
   note="Trusted: Lean kernel; chain abstraction of the parser; go/ast extractor; go/parser reading of the emitted expression; table-driven reference in the harness for the search."),
 "C09": dict(
   text="Machine-checked proof (Lean 4, full for the decision): accept_iff proves for every union, every list of arms in any order (repetitions allowed) and EVERY enumeration order of the coverage dictionary that the model of parseMatchRules/parseURules/exaustiveCheck accepts iff there is an arm and (a default arm follows or every case is named); diag_names_uncovered: the diagnostic names a case of the union no arm covers, for every enumeration order; dispatch_total: in an accepted match without default every constructor-built value reaches an arm of its own case, so the emitted 'never reached' panic is unreachable. Arm parsing and the command-level clause are tied by the c09.match stream (exhaustive over unions x ordered arm subsets x default x arm forms x nesting contexts, through the real parser) and a real-binary run (exit status, diagnostic, no gen file).",
   design="§5 C09", technique="Lean 4 theorems over the dict model (all enumeration orders) + exhaustive correspondence through the real parser",
   note="Trusted: Lean kernel; the dict model of C14; arm parsing not modelled (tied by exhaustive enumeration); nil interface values outside dispatch_total."),
 "C10": dict(
   text="Machine-checked proof (Lean 4, full): opEqual_iff proves for ALL first-order Folang values a, b (any nesting of ints, strings, bools, tuples, records with any field capitalisation, unions, slices) and ALL Go representations of them (each empty slice independently nil or non-nil) that the model of frt.OpEqual = cmp.Equal+Exporter+EquateEmpty never panics and returns decide(a = b); reflexivity, symmetry, transitivity and <> = negation follow. Witness theorems show plain cmp.Equal (before fix 01c3b5f) violates both clauses. Tied to /repo by the eq.pair stream: pairs of values of 12 real fc-emitted types through the emitted =/<> functions vs the model.",
   design="§5 C10", technique="Lean 4 theorem (mutual structural induction over values) + correspondence on fc-emitted types",
   note="Trusted: Lean kernel; the model of go-cmp v0.6.0's rules and of the value representation; prelude transpiled by the real fc at check time. Floats/functions/maps are outside the statement."),
 "C15": dict(
   text="Machine-checked proof (Lean 4, PARTIAL): toGo_* theorems prove for sub-types of any depth that the model of FTypeToGo renders every type constructor as documented (float->float64, ()->no result, []T, frt.Tuple2/3[...], func (A,B) C with unit result/argument omitted, Name[T, U]). The parser (parseType > parseTypeArrows > parseElemType > parseTermType > parseAtomType) is an executable Lean model; its round-trip theorem roundtrip_full is stated but NOT proved; precedence clauses are checked on instances by kernel evaluation. The model is tied to the real parseType+FTypeToGo by exhaustive enumeration (depth<=1 quick, <=2 thorough), random deeper expressions with redundant parentheses, the five syntactic positions through the whole pipeline, and a malformed-token stream; the harness also compares with the documented mapping directly.",
   design="§5 C15", technique="Lean 4 lemmas on the emitter model + executable parser model in exhaustive correspondence with the real parser (round-trip theorem pending)",
   note="Trusted: Lean kernel; parser model correspondence (not a proof) for the parsing half; go/parser position cutting; forward references in type groups are outside the statement."),
 "C14": dict(
   text="Machine-checked proof (Lean 4, full): dict refines a finite map (add_refines, containsKey/tryFind/item_refines, keys/kvs_enumerates with Nodup for EVERY enumeration order, toDict_last), strings laws for all byte strings (concat_split, concat_splitN, splitN2, hasPrefix/hasSuffix_iff, trimSuffix_append, argument-order theorems) over a transcription of Go's genSplit/Index, buf_accumulates, frt thunk/tuple laws, and toS_total: for every reflect kind the accessor chosen by the REGENERATED kind switch is legal (false before fix a41e038: toS_unfixed_panics). Tied to /repo by regenerated inventories + toS arms and by lib.dict/lib.str/lib.buf/lib.tos correspondence streams against the real packages.",
   design="§5 C14", technique="Lean 4 theorems (refinement, list laws, decide over a regenerated table) + correspondence with the real packages",
   note="Trusted: Lean kernel; Go map = duplicate-free association list; transcription of Go's strings functions (explode only for single-byte characters); reflect accessor contract; float formatting not compared."),
 "C16": dict(
   text="Machine-checked proof (Lean 4, PARTIAL): driver_exit0_complete and driver_failure_discipline prove for EVERY argument list that the model of main/transpileFiles/transpileOne/OnParseError exits 0 only if every requested gen file was written completely, and otherwise names the offending argument in a diagnostic, writes nothing for it or any later argument, and keeps the earlier files. A byte-level model of the whole tokenizer (scanTokenAt and every scanner, nextToken, newTkz, tkzNext) is tied to the real one on every byte value, random fragment strings, corpus files and damaged corpus files. NOT proved: termination of parser / inference / emission (tied by running the real binary under timeout + memory limit on mutants of the samples and compiler sources, incl. self-referential definitions) and the scan_progress lemma (pending). Four genuine defects found and fixed: hang on // at EOF (b8a3c7e), dropped WriteFile result (e5a41f0), stack overflow on self-application (1e8a7fd) and on recursive records (2321b63).",
   design="§5 C16", technique="Lean 4 theorems on the driver model + tokenizer model correspondence + real-binary mutant runs under timeout (termination itself is not proved)",
   note="Trusted: Lean kernel; abstract per-file translation and I/O in the driver model; the Go runtime (stack, memory) is outside every model; root cannot induce permission faults."),
 "C18": dict(
   text="Machine-checked proof (Lean 4, full): readme_shape proves for every list file and every file system in which all listed files are readable that the model of processListFile writes header ++ intercalate \"\\n\" (one section per non-empty list line, in list order), each section = title (text after the first space, else the file name), the file's content verbatim inside a fence, and the link to gen_<base>.go; missing_fails proves that an unreadable listed file yields a failure with nothing written. Built on the C14 string theorems (splitN2, concat_spec). Tied to /repo by running the tool rebuilt from gen_build_sample_md.go on generated directories and on samples/filelist.txt (README bytes + exit status vs the model).",
   design="§5 C18", technique="Lean 4 theorems over the library models + correspondence with the rebuilt tool on generated directories",
   note="Trusted: Lean kernel; C13/C14 library models; filepath functions not modelled (plain names); Sprintf with one %s = verbatim insertion."),
}

NA = {
 "C04": "Fixed-point equality of specific checked-in files with what the real toolchain produces: no unbounded quantifier a theorem could settle and no executable model short of re-implementing the whole language; see DESIGN.md §6.",
}
PENDING = "not claimed yet: the Lean model/theorems and the tie for this property are not built in this revision (see DESIGN.md §5 for the plan); no other technique is substituted"

def main():
    checks = []
    for pid in ALL:
        if pid in CLAIMED:
            c = CLAIMED[pid]
            checks.append({
                "property_id": pid,
                "quick_cmd": "./check %s quick" % pid,
                "thorough_cmd": "./check %s thorough" % pid,
                "evidence_file": "/verif/evidence/%s.json" % pid,
                "replay_cmd_template": "./check %s --replay {path}" % pid,
                "engine": "lean-proof+oracle+harness",
                "level_claimed": {"category": "proof", "text": c["text"], "design_ref": c["design"]},
                "level_note": c["note"],
                "technique": c["technique"],
            })
    na = [{"property_id": p, "reason": NA.get(p, PENDING)} for p in ALL if p not in CLAIMED]
    m = {
        "version": 1,
        "setup_cmd": "./setup",
        "hooks": {
            "guard": "none (no source hooks: drivers are injected with `go build -overlay`, library packages are linked through `replace`)",
            "enable": "checks build /repo's working tree themselves: harness/libdrv links /repo/pkg/* via go.mod replace; fc/tinyfo internals are reached with go build -overlay adding harness/fcdrv/driver.go virtually",
            "baseline_off_cmd": "for m in cmd/build_sample_md fc pkg/buf pkg/dict pkg/frt pkg/slice pkg/strings pkg/sys tinyfo; do (cd /repo/$m && GOFLAGS=-mod=mod GOPROXY=off GOSUMDB=off go test -vet=off -count=1 ./...) || exit 1; done",
            "source_commits": [],
            "add_only": True,
        },
        "engines": [
            {"name": "lean-proof", "path": "lean/", "serves_properties": sorted(CLAIMED), "kind_free_text": "Lean 4.33 lake project: models (Folang/Model), specs, lemmas, property theorems (Folang/Props), regenerated facts (Folang/Generated)"},
            {"name": "oracle", "path": "lean/OracleMain.lean", "serves_properties": sorted(CLAIMED), "kind_free_text": "compiled lean_exe running the models' executable definitions over a line protocol"},
            {"name": "harness", "path": "harness/", "serves_properties": sorted(CLAIMED), "kind_free_text": "Go drivers calling the real code in-process, go/ast fact extractor"},
        ],
        "checks": checks,
        "notes": "Fix commits in /repo: 20f0992 (slice.PushLast), a41e038 (frt.toS), 01c3b5f (frt.OpEqual), 20818f3 (string literals), b8a3c7e e5a41f0 1e8a7fd 2321b63 (C16: hang, dropped write result, two stack overflows), 5aa1ab1 (C05 record lookup order). known_findings.json lists fixed and known findings.",
        "not_applicable": na,
    }
    json.dump(m, open(os.path.join(V, "MANIFEST.json"), "w"), indent=1)
    print("claimed:", sorted(CLAIMED), "not claimed:", len(na))

main()
