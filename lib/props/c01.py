import binascii, glob, json, os, shutil, subprocess, vlib
from props import gocommon

THEOREMS = ["Folang.Sem.lower_correct", "Folang.Sem.lower_correct_output", "Folang.Sem.runProg_deterministic", "Folang.Sem.grunProg_deterministic", "Folang.Sem.evalN_mono", "Folang.Sem.wfProgB_iff", "Folang.Sem.sim", "Folang.Sem.gevalN_mono", "Folang.Sem.exampleProg_wf",
            "Folang.Sem.exampleProg_runs", "Folang.Sem.exampleProg_lowered", "Folang.Sem.exampleD9_wf", "Folang.Sem.exampleD9_runs", "Folang.Sem.exampleD9_lowered", "Folang.Sem.sim_paArgs", "Folang.Sem.sim_inert", "Folang.Sem.VRel.weakR", "Folang.Sem.geval_atoms", "Folang.Sem.exampleNested_wf", "Folang.Sem.exampleNested_runs", "Folang.Sem.exampleNested_lowering",
            "Folang.Props.C01.papp_agrees_when_pure", "Folang.Props.C01.papp_effects_late",
            "Folang.Props.C08.climb_eq_group", "Folang.Props.C14.ifElse_true", "Folang.Props.C14.ifElse_false",
            "Folang.Props.C14.ifOnly_false", "Folang.Props.C14.pipe_spec", "Folang.Props.C09.dispatch_total",
            "Folang.Props.C11.C11_interp", "Folang.Props.C11.C11_plain"]

ASSUMPTIONS = [
    "PARTIAL. Proved (Props/Sim.lean, no bound on program size, nesting or recursion): lower_correct — for every well-formed program of core Folang (literals, variables, first-order primitives, && ||, if/else with block branches, if-only, let / destructuring let, full and partial application of top-level functions, application of function values, closures, pipes, slice.Map/Filter/Fold, union and string match in return and expression position, recursion) whenever the reference semantics runProg finishes with output tr, the Go-core semantics of the lowered program finishes with the same output. The lowering model has two modes: fc AFTER the repair of D9 (given arguments of a partial application that are not inert — a literal, a variable, a field of a variable — are evaluated first, once, into _p bindings; lower_correct then needs NO purity hypothesis and the inert rule of the emitter is modelled completely - literals, variables, fields of a variable, LAMBDAS and PARTIAL APPLICATIONS OF INERT ARGUMENTS stay inside the closure (sim_inert, VRel.weakR, geval_atoms: they are re-evaluated at every call of the closure, in an environment extended by its _rN parameters, to values that stay related), everything else is bound once; wfProg true only asks that no source variable is named like a compiler-made _pN / _rN) and tinyfo (every given argument stays inside the closure; wfProg false asks that they are pure: papp_effects_late shows the lowering is unfaithful otherwise, which was defect D9 of fc). lower_correct_output: EVERY completed Go-core run of the lowered program has exactly the source's output; runProg_deterministic / grunProg_deterministic (from evalN_mono / gevalN_mono): results do not depend on the fuel once it suffices",
    "NOT proved: C01_full for the real pipeline. The theorem is about three models — the reference semantics evalN (Sem/Eval.lean), the lowering lowerE/lowerB (Sem/Lower.lean), the Go-core semantics gevalN (Sem/GoCore.lean). Tie on every run: (1) sem.lower — the Go really emitted for every generated function is read back with go/parser (types erased) and must EQUAL the model's lowering of the abstract function, so parser + emitter together are checked against lowerB; (2) sem.prog / c01.prog — the stdout of the compiled program must equal the output of runProg (the same definition the theorem is about; the oracle also re-evaluates the lowered program with gevalN) and of the older evaluator Oracle/FSem.lean. Text -> abstract program (parser), type inference and the type annotations of the emitted Go are not modelled (the Go type checker and the run check them per program)",
    "trusted: the Go-core semantics as a model of Go (call by value, left-to-right evaluation of call operands, short-circuit && ||, closures capture, type switch; integers unbounded) and of frt.IfElse / IfOnly / Pipe and slice.Map / Filter / Fold by their definitions; primitives on first-order data have one semantics used on both sides (their correctness is C10 / C13 / C14)",
    "outside the proved fragment, counted in coverage.distribution (outside-fragment.*): string-match arms binding a variable; those programs are still compared by stdout (c01.prog)",
    "search = the property's own observable: type-directed random programs over the documented subset + a hand-kept boundary corpus; transpiled by the real pipeline in-process, compiled with the Go toolchain, run; stdout vs the reference semantics; go build diagnostics are failures",
    "generators stay inside the hypotheses of known findings: every binding is used (D17), binder names are fresh (D18, D19), fewer than 100 inference variables per definition (D12); integers stay small (no wrap-around)",
]

KNOWN = {"d17_unused_binding": "D17", "d12_many_typevars": "D12", "d18_match_var_shadow": "D18", "d19_rebinding": "D19", "d20_unit_binding": "D20"}


def run(ctx):
    ctx.ensure_oracle()
    fcdrv = ctx.build_fcdrv()
    ctx.assumptions += ASSUMPTIONS
    ctx.partial.append("forward simulation lower_correct proved for the core fragment over models tied to the code by read-back and execution; C01_full for the real pipeline (parser, inference, type annotations) not proved")
    ctx.lake_build(["Folang.Props.C01", "Folang.Props.Sim"])
    ctx.audit(THEOREMS, ["Folang.Props.C01", "Folang.Props.Sim"])
    if ctx.tier == "thorough":
        ctx.leanchecker(["Folang.Props.C01", "Folang.Props.Sim"])
    wd = gocommon.workdir("c01.work")
    # boundary corpus and known findings
    paths = sorted(glob.glob(os.path.join(vlib.VERIF, "corpus", "C01", "*.fo")))
    p = subprocess.run([fcdrv], env=gocommon.fc_env("runsrc", "0 0 %s %s" % (wd, " ".join(paths))), stdout=subprocess.PIPE,
                       stderr=subprocess.PIPE, text=True, timeout=1800)
    kf = {k["id"]: k for k in ctx.known_findings()}
    for ln in p.stdout.split("\n"):
        parts = ln.split(" ")
        if len(parts) != 3 or parts[0] not in ("R", "E"):
            continue
        path, got = parts[1], binascii.unhexlify(parts[2][1:]).decode(errors="replace")
        base = os.path.basename(path)[:-3]
        want = open(path[:-3] + ".expected").read()
        ctx.evaluations += 1
        ok = parts[0] == "R" and got == want
        if base in KNOWN:
            k = kf.get(KNOWN[base])
            if not ok and k and k.get("status") == "known":
                ctx.known_line(k["what"])
            elif ok:
                ctx.notes.append("known finding %s no longer reproduces" % KNOWN[base])
            else:
                ctx.direct.append({"kind": "corpus program misbehaves (finding not listed as known)", "program": open(path).read(), "expected": want, "observed": got})
        else:
            ctx.obligations.append(("corpus:" + base, ok, "" if ok else got[:500]))
            if not ok:
                ctx.broken.append("corpus:" + base)
                ctx.direct.append({"kind": "boundary corpus program: output differs from the documented semantics", "program": open(path).read(), "expected": want, "observed": got})
    # generated programs
    if ctx.tier == "quick":
        runs = [("%d 240 %s 60" % (ctx.seed, wd))]
    else:
        runs = [("%d 2500 %s 60" % (ctx.seed * 10 + k, wd)) for k in range(8)]
    for k, a in enumerate(runs):
        mism = ctx.stream("c01.prog/%d" % k, [fcdrv], env=gocommon.fc_env("c01", a), timeout=3000, max_samples=1)
        # a differing read-back (sem.lower) is a broken correspondence, not yet a failing input: the
        # failing input, if there is one, is a program whose stdout differs (c01.prog / sem.prog)
        behav = [m for m in mism if not m[0].startswith("(sem.lower")]
        struct = [m for m in mism if m[0].startswith("(sem.lower")]
        for (i, e, o) in behav[:3]:
            ctx.direct.append({"kind": "stdout differs from the reference semantics", "input": i[:6000], "reference": e, "observed": o})
        if struct:
            ctx.notes.append("sem.lower: the Go emitted for %d functions differs from the lowering model; first: model=%s emitted=%s" % (len(struct), struct[0][1][:1500], struct[0][2][:1500]))
    shutil.rmtree(wd, ignore_errors=True)
    ctx.finish(rule="type-directed random programs (1-3 helper functions + an entry function each; half of them rendered under a random layout) in batches of 60 per Go build + boundary corpus; stdout of the compiled output vs the Lean reference semantics on the abstract program (streams c01.prog, sem.prog) and Go-core read-back of every emitted function vs the lowering model (sem.lower); the measured feature distribution is in coverage.distribution; distinct = distinct abstract programs")


def replay(ctx, path):
    data = json.load(open(path))
    v = data.get("violation") or {}
    print("recorded:", json.dumps(v or data)[:4000])
    if v.get("input"):
        ctx.ensure_oracle()
        print("reference:", ctx.oracle([v["input"]])[0])
    return 1
