import binascii, glob, json, os, shutil, subprocess, vlib
from props import gocommon

THEOREMS = ["Folang.Props.C01.papp_agrees_when_pure", "Folang.Props.C01.papp_effects_late",
            "Folang.Props.C08.climb_eq_group", "Folang.Props.C14.ifElse_true", "Folang.Props.C14.ifElse_false",
            "Folang.Props.C14.ifOnly_false", "Folang.Props.C14.pipe_spec", "Folang.Props.C09.dispatch_total",
            "Folang.Props.C11.C11_interp", "Folang.Props.C11.C11_plain"]

ASSUMPTIONS = [
    "PARTIAL: C01_full (a verified-compiler statement for parser+inference+emitter) is stated, not proved. Proved: the partial-application lowering preserves behaviour for effect-free given arguments (papp_agrees_when_pure) and the mechanisms of the anchors (operator grouping C08, thunked branches and pipe C14, match dispatch C09, literals C11)",
    "the reference semantics (strict, left to right, lexically scoped; Oracle/FSem.lean, executable Lean) is trusted as the meaning of the abstract programs; the generator (harness/fcdrv/gen.go) renders them to text",
    "search = the property's own observable: type-directed random programs over the documented subset (let, functions, closures, partial application, pipes, if/elif/else, union and string match, records, tuples, slices, destructuring, interpolation, library calls, equality) + a hand-kept boundary corpus; transpiled by the real pipeline in-process, compiled with the Go toolchain, run; stdout vs the reference evaluator; go build diagnostics are failures",
    "generators stay inside the hypotheses of known findings: given arguments of partial applications are effect free (D9), every binding is used (D17), fewer than 100 inference variables per definition (D12); integers stay small (no wrap-around)",
]

KNOWN = {"d9_partial_effects": "D9", "d17_unused_binding": "D17", "d12_many_typevars": "D12"}


def run(ctx):
    ctx.ensure_oracle()
    fcdrv = ctx.build_fcdrv()
    ctx.assumptions += ASSUMPTIONS
    ctx.partial.append("C01_full not proved; forward simulation IR -> Go-core (lower_preserves) not built")
    ctx.lake_build(["Folang.Props.C01"])
    ctx.audit(THEOREMS, ["Folang.Props.C01"])
    if ctx.tier == "thorough":
        ctx.leanchecker(["Folang.Props.C01"])
    wd = gocommon.workdir("c01.work")
    # boundary corpus and known findings
    paths = sorted(glob.glob(os.path.join(vlib.VERIF, "corpus", "C01", "*.fo")))
    p = subprocess.run([fcdrv], env=gocommon.fc_env("runsrc", "0 0 %s %s" % (wd, " ".join(paths))), stdout=subprocess.PIPE,
                       stderr=subprocess.PIPE, text=True, timeout=1800)
    kf = {k["id"]: k for k in ctx.known_findings()}
    for ln in p.stdout.split("\n"):
        parts = ln.split(" ")
        if len(parts) != 3 or parts[0] not in ("R", "E"):
            continue
        path, got = parts[1], binascii.unhexlify(parts[2][1:]).decode(errors="replace")
        base = os.path.basename(path)[:-3]
        want = open(path[:-3] + ".expected").read()
        ctx.evaluations += 1
        ok = parts[0] == "R" and got == want
        if base in KNOWN:
            k = kf.get(KNOWN[base])
            if not ok and k and k.get("status") == "known":
                ctx.known_line(k["what"])
            elif ok:
                ctx.notes.append("known finding %s no longer reproduces" % KNOWN[base])
            else:
                ctx.direct.append({"kind": "corpus program misbehaves (finding not listed as known)", "program": open(path).read(), "expected": want, "observed": got})
        else:
            ctx.obligations.append(("corpus:" + base, ok, "" if ok else got[:500]))
            if not ok:
                ctx.broken.append("corpus:" + base)
                ctx.direct.append({"kind": "boundary corpus program: output differs from the documented semantics", "program": open(path).read(), "expected": want, "observed": got})
    # generated programs
    if ctx.tier == "quick":
        runs = [("%d 240 %s 60" % (ctx.seed, wd))]
    else:
        runs = [("%d 2500 %s 60" % (ctx.seed * 10 + k, wd)) for k in range(8)]
    for k, a in enumerate(runs):
        mism = ctx.stream("c01.prog/%d" % k, [fcdrv], env=gocommon.fc_env("c01", a), timeout=3000, max_samples=1)
        for (i, e, o) in mism[:3]:
            ctx.direct.append({"kind": "stdout differs from the reference semantics", "input": i[:6000], "reference": e, "observed": o})
    shutil.rmtree(wd, ignore_errors=True)
    ctx.finish(rule="type-directed random programs (1-3 helper functions + an entry function each; half of them rendered under a random layout) in batches of 60 per Go build + boundary corpus; stdout of the compiled output vs the Lean reference evaluator on the abstract program; the measured feature distribution is in coverage.distribution; distinct = distinct abstract programs")


def replay(ctx, path):
    data = json.load(open(path))
    v = data.get("violation") or {}
    print("recorded:", json.dumps(v or data)[:4000])
    if v.get("input"):
        ctx.ensure_oracle()
        print("reference:", ctx.oracle([v["input"]])[0])
    return 1
