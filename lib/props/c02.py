import json, shutil, vlib
from props import gocommon

THEOREMS = ["Folang.Props.C02." + t for t in """compositeTp_complete compositeTpList_complete compositeTp_sound compositeTpList_sound
distinct_nodup mem_distinct hoist_domain hoist_first_occurrence hoist_names alloc_inv_step alloc_fresh""".split()] + \
    ["Folang.Props.C02Unify." + t for t in "unify_general unify_most_general unifyC_sound unifyC_principal unifyC_complete unify_complete occurs_unsolvable clash_head_unsolvable beqTy_eq apply_respects principal_numbering_is_hoist".split()] + \
    ["Folang.Unify." + t for t in "unify_fuel_mono unify_fuel_indep unify_answer_unique elim_vars inner unify_terminates unify_total owes_elim unify_owes unify_sound unifyC_eq_unify unifyC_total".split()]

ASSUMPTIONS = [
    "PARTIAL. model: compositeTp / compositeTpList / unifyType on first-order type terms (variable | constructor applied to types), hoistTVar + slice.Distinct + newTName, the type-variable allocator; field-access types and record/union info are not modelled",
    "reference inference (Model/Unify.lean, Props/C02Unify.lean): a work-list unifier on the same type terms; unifyC_sound (its answer solves every equation; certified: the answer is re-checked by a decidable test inside the definition) and unifyC_principal (it is MOST GENERAL: every solution of the equations factors through it), unifyC_complete (it answers clash only for systems without any solution, occurs check included), so the types it assigns to the parameters and the result are the principal types of any function whose body yields those equations. unify_sound (Props/C02Sound.lean): the work-list algorithm is sound WITHOUT its certificate (whenever it answers ok its bindings solve every equation), so the re-check never fails (unifyC_eq_unify) and unifyC_total: the certified reference answers ok or clash for every system with some step bound and identically with every larger one. unify_terminates / unify_total (Props/C02Term.lean): for EVERY system of equations some step bound yields an answer (ok or clash) — measure: variables that can still occur, then total size — and unify_fuel_indep (Props/C02Fuel.lean) every larger bound yields the same answer; the concrete bound the oracle uses is not proved adequate: an exhausted bound is answered as outside-fragment (counted, not compared); none occur. It is the specification, not a model of fc's resolver. Stream c02.graph: random constraint graphs - un-annotated parameters, a body built from slice literals, pairs, equality, slice.Head/Last, frt.Fst/Snd, destructuring lets, function-typed parameters applied once, generic record literals, generic union construction (with and without payload), if/else expressions, calls of annotated and of generic user functions (each use instantiated on its own), arithmetic / comparison with a literal operand, literals; the equations are collected by the harness while it builds the expressions (independently of fc; solvable by construction, the hidden ground typing is usually not the most general); the Go signature the real compiler emits (type parameters, parameter and result types, read back with go/parser) must EQUAL the principal signature with leftover variables numbered by first occurrence (principal_numbering_is_hoist: that numbering is the hoisting rule T{k} of the compiler model, hoist_first_occurrence); a difference is a counterexample (the program is in the replay)",
    "NOT proved: that the resolver fixpoint (EquivSet / EquivInfo / updateResOne / updateResolver) computes a most general unifier of all collected relations, and that constraint collection over the AST is complete; these are tied by the stream below",
    "tie/search: generated functions whose parameter types are determined by the body through the promised constructs (arithmetic/comparison with a typed operand, calls of functions with known signatures, record/union construction, tuples, slices, destructuring, function-typed parameters applied once); EVERY subset of redundant annotations erased -> the function's emitted Go must be identical; undetermined parameters must become T0, T1, … in first-occurrence order; every generic function is called at two instantiations; batches are compiled (go build = Go type check) and run, stdout vs expectation",
]


def run(ctx):
    fcdrv = ctx.build_fcdrv()
    ctx.assumptions += ASSUMPTIONS
    ctx.partial.append("resolver fixpoint / principality end to end not proved")
    ctx.ensure_oracle()
    mods = ["Folang.Props.C02", "Folang.Props.C02Unify", "Folang.Props.C02Fuel", "Folang.Props.C02Term", "Folang.Props.C02Sound"]
    ctx.lake_build(mods)
    ctx.audit(THEOREMS, mods)
    if ctx.tier == "thorough":
        ctx.leanchecker(mods)
    # constraint graphs vs the proved-principal reference unifier
    gn = 1500 if ctx.tier == "quick" else 30000
    mism = ctx.stream("c02.graph", [fcdrv], env=gocommon.fc_env("c02graph", "%d %d" % (ctx.seed + 5, gn)), timeout=20000)
    for (i, e, o) in (mism or [])[:3]:
        src = ""
        try:
            import binascii
            src = binascii.unhexlify(i.rstrip(")").split(" x")[-1]).decode()
        except Exception:
            pass
        ctx.direct.append({"kind": "the emitted Go signature is not the principal type of the function", "program": src, "principal_signature": e, "emitted_signature": o, "equations": i[:3000]})
    wd = gocommon.workdir("c02.work")
    n = 100 if ctx.tier == "quick" else 5000
    r = ctx.run_harness([fcdrv], env=gocommon.fc_env("c02", "%d %d %s" % (ctx.seed, n, wd)), timeout=40000)
    ok = r is not None
    if ok:
        _, _, vio, stats = r
        for k, v in stats.items():
            ctx.stats["infer:" + k] = v
        ctx.evaluations += stats.get("erasures", 0) + stats.get("functions", 0)
        for i in range(stats.get("functions", 0)):
            ctx.distinct.add(("c02-function", i))
        ctx.direct += vio
        ctx.samples.append({"stream": "erasure", "input": "let f (a0: int) (a1: string) a2 = ((a0 + 1) + (strLen a1), a2) with every subset of {a0, a1} annotations erased", "impl": str(stats)})
    ctx.obligations.append(("search:annotation-erasure / hoisting / instantiation", ok and not r[2], "" if ok else "harness failed"))
    if not ok:
        ctx.broken.append("search:erasure")
    shutil.rmtree(wd, ignore_errors=True)
    ctx.finish(rule="functions of 1-4 parameters of kinds int/string/bool/record/[]int/int->int/union/int*string/undetermined, each determined parameter used in 1-2 determining contexts; all 2^n - 1 erasure subsets; expected type-parameter hoisting; two instantiations per generic function compiled and run in batches of 25; distinct = distinct functions")


def replay(ctx, path):
    data = json.load(open(path))
    v = data.get("violation") or {}
    print("recorded:", json.dumps(v or data)[:6000])
    return 1
