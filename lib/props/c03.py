import json, shutil, vlib
from props import gocommon

THEOREMS = ["Folang.Props.C03." + t for t in """record_shape union_interface union_case_struct ctor_is_func ctor_is_var
ctor_ref_matches_decl qualified_name call_full call_partial call_partial_arity call_partial_bound paArgs_inert call_too_many call_carries_type_args call_no_type_args root_func_shape
unit_result_is_no_result""".split()]

ASSUMPTIONS = [
    "model: rdfToGo, udfToGo (udUnionDef, udCSDef, csConstruct, csIsVar, csConstructorName), csRegisterCtor, piFullName, fcToGo (fcFullApplyGo / fcPartialApplyGo), rfdToGo's signature part, as functions producing structured Go declarations / expressions (not text); field and payload types go through the C15 model of FTypeToGo",
    "the Stringer and conformance methods of union cases and the textual layout of the emitted declarations are not modelled",
    "tie/search: generated record / union (generic or not, any field and payload types) / function / variable declarations and package_info calls of every arity (full, partial through let, piped, explicitly instantiated, package-qualified, unit argument/result) are transpiled by the real pipeline and compiled together with generated hand-style Go (client using the documented names, implementations of the package_info functions in package main and in a separate package); program stdout vs the expectation; the declarations of every union and the struct of every record read back with go/parser vs the model (c03.union, c03.record)",
]


def run(ctx):
    ctx.ensure_oracle()
    fcdrv = ctx.build_fcdrv()
    ctx.assumptions += ASSUMPTIONS
    ctx.lake_build(["Folang.Props.C03"])
    ctx.audit(THEOREMS, ["Folang.Props.C03"])
    if ctx.tier == "thorough":
        ctx.leanchecker(["Folang.Props.C03"])
    wd = gocommon.workdir("c03.work")
    n = 10 if ctx.tier == "quick" else 600
    ctx.stream("c03", [fcdrv], env=gocommon.fc_env("c03", "%d %d %s" % (ctx.seed, n, wd)), timeout=20000)
    ctx.evaluations += n
    shutil.rmtree(wd, ignore_errors=True)
    ctx.finish(rule="per case: 1-2 records (1-4 fields; generic or not; field types int/string/bool/[]int/[]string/int*string/earlier records/T), 1-2 unions (1-4 cases with/without payload; generic or not), top-level var and funcs with unit parameter/result, 23 package_info call forms (incl. explicitly instantiated generic functions whose type parameter occurs only in the result, full / partial / piped, type arguments drawn per program); compiled with a generated Go client + implementations and run; distinct = distinct union / record declarations checked against the model (programs are counted in evaluations)")


def replay(ctx, path):
    data = json.load(open(path))
    v = data.get("violation") or {}
    print("recorded:", json.dumps(v or data)[:6000])
    return 1
