import hashlib, json, os, shutil, subprocess, tempfile, vlib

THEOREMS = ["Folang.Props.C04." + t for t in
            "fixed_point_all_generations other_outputs_stable differs_refutes transpileFiles_all_ok recipe_writes "
            "fact_fcRecipe_outputs fact_fcRecipe_complete fact_recipes_foi fact_samples_have_gen fact_tool fcRecipe_written".split()]

ASSUMPTIONS = [
    "the compiler is NOT modelled: the Go toolchain (gen files -> compiler) and a compiler (sources -> gen files, then gofmt) enter the theorems as uninterpreted deterministic functions; determinism of the compiler is property C05, of go build / gofmt is assumed",
    "proved: fixed_point_all_generations (generation 1 = checked-in  =>  every generation = checked-in), other_outputs_stable (samples / tool / README of every generation equal those of the checked-in compiler), recipe_writes (driver model of C16: one gen file per .fo argument, none for .foi); inventory facts regenerated from the tree (fc_all.sh names every fc/*.fo; its outputs are exactly the checked-in fc/gen_*.go; every listed sample has source and gen file)",
    "EXECUTED, not proved: the hypothesis of the lifting theorem, i.e. the concrete file equalities of generation 1 (12 compiler files, the listed samples, the tool, README.md), by running the real toolchain on a scratch copy of the working tree; generation 2 is executed as well (redundant with the theorem, it guards the determinism assumption)",
    "gofmt is the one of the installed Go toolchain (GOTOOLCHAIN=local)",
]


def recipe_args(path):
    """arguments of the `./fc …` line of a recipe script, variables assigned in the script substituted"""
    vars_, args = {}, []
    for ln in open(path).read().split("\n"):
        ln = ln.strip()
        if "=" in ln and not ln.startswith("#") and " " not in ln.split("=", 1)[0]:
            k, v = ln.split("=", 1)
            vars_[k] = v
        if ln.startswith("./fc "):
            for a in ln.split()[1:]:
                if a.startswith("$") and a[1:] in vars_:
                    a = vars_[a[1:]]
                args.append(a)
    return args


def first_diff(a, b):
    la, lb = a.split(b"\n"), b.split(b"\n")
    for i in range(max(len(la), len(lb))):
        x = la[i] if i < len(la) else b"<end of file>"
        y = lb[i] if i < len(lb) else b"<end of file>"
        if x != y:
            return i + 1, x.decode("utf8", "replace")[:300], y.decode("utf8", "replace")[:300]
    return 0, "", ""


def run(ctx):
    ctx.build_go("extract")
    ctx.regenerate("recipe", "RecipeFacts.lean")
    ctx.assumptions += ASSUMPTIONS
    ctx.partial.append("the generation-1 equalities are established by execution of the real toolchain, not by a theorem (the compiler is not modelled); the theorems lift them to every generation and tie the recipe to the inventory of files")
    mods = ["Folang.Props.C04"]
    ctx.lake_build(mods)
    ctx.audit(THEOREMS, mods)
    if ctx.tier == "thorough":
        ctx.leanchecker(mods)
    REPO = vlib.REPO
    work = tempfile.mkdtemp(prefix="c04.")
    env = dict(vlib.GOENV)
    try:
        cp = os.path.join(work, "repo")
        rc, o = vlib.sh(["rsync", "-a", "--exclude", ".git", "--exclude", "/fc/fc", "--exclude", "/tinyfo/tinyfo",
                         "--exclude", "/cmd/build_sample_md/build_sample_md", "--exclude", "/cmd/build_sample_md/fc",
                         "--exclude", "/samples/fc", "--exclude", "/samples/build_sample_md", REPO + "/", cp + "/"])
        if rc != 0:
            ctx.fail_infra("rsync failed: " + o)
        checked = {}      # relative path -> checked-in bytes

        def rd(rel):
            p = os.path.join(REPO, rel)
            return open(p, "rb").read() if os.path.exists(p) else None

        def step(name, cmd, cwd):
            p = subprocess.run(cmd, cwd=cwd, env=env, stdout=subprocess.PIPE, stderr=subprocess.STDOUT, timeout=900)
            ok = p.returncode == 0
            if not ok:
                ctx.direct.append({"kind": "a step of the regeneration recipe fails", "step": name, "cmd": " ".join(cmd),
                                   "output": p.stdout.decode("utf8", "replace")[-3000:]})
            return ok

        def compare(rel, gen, against, what):
            """regenerated file (in the scratch copy) against expected bytes"""
            ctx.evaluations += 1
            ctx.distinct.add(rel)
            p = os.path.join(cp, rel)
            new = open(p, "rb").read() if os.path.exists(p) else None
            ctx.stats["compare:gen%d" % gen] = ctx.stats.get("compare:gen%d" % gen, 0) + 1
            if new is None or against is None:
                ctx.direct.append({"kind": "file missing", "file": rel, "generation": gen, "regenerated_exists": new is not None,
                                   "expected_exists": against is not None, "expected_is": what})
                return False
            if new != against:
                ln, x, y = first_diff(against, new)
                ctx.direct.append({"kind": "regenerated file differs from " + what, "file": rel, "generation": gen,
                                   "first_differing_line": ln, "expected": x, "regenerated": y,
                                   "replay": "build fc from the tree, run the recipe of fc/fc_all.sh (samples/myfc.sh, cmd/build_sample_md/fc.sh), gofmt, diff"})
                return False
            return True

        fc_args = recipe_args(os.path.join(REPO, "fc", "fc_all.sh"))
        s_args = recipe_args(os.path.join(REPO, "samples", "myfc.sh"))
        t_args = recipe_args(os.path.join(REPO, "cmd", "build_sample_md", "fc.sh"))
        samples = [ln.split()[0] for ln in open(os.path.join(REPO, "samples", "filelist.txt")).read().split("\n") if ln.split()]
        fcdir, sdir, tdir = os.path.join(cp, "fc"), os.path.join(cp, "samples"), os.path.join(cp, "cmd", "build_sample_md")
        fc_gen = ["fc/gen_" + a[:-3] + ".go" for a in fc_args if a.endswith(".fo")]
        s_gen = ["samples/gen_" + s[:-3] + ".go" for s in samples if s.endswith(".fo")]
        t_gen = ["cmd/build_sample_md/gen_build_sample_md.go"]
        for rel in fc_gen + s_gen + t_gen + ["samples/README.md"]:
            checked[rel] = rd(rel)
        gens = 2 if ctx.tier == "quick" else 3
        prev = dict(checked)
        allok = True
        for g in range(1, gens + 1):
            # compiler of generation g-1: built from the gen files now in the scratch copy
            fcbin = os.path.join(work, "fc%d" % (g - 1))
            if not step("go build fc (generation %d compiler)" % (g - 1), ["go", "build", "-o", fcbin, "."], fcdir):
                allok = False
                break
            # spoil the outputs first: a recipe step that silently writes nothing must not pass
            # (nor one that writes over an older, longer file without truncating it): every output is
            # first replaced by junk that is longer than anything the recipe writes
            for rel in fc_gen + s_gen + t_gen + ["samples/README.md"]:
                p = os.path.join(cp, rel)
                if os.path.exists(p):
                    n = os.path.getsize(p)
                    with open(p, "wb") as fh:
                        fh.write(b"// stale junk that a complete regeneration replaces\n" * (n // 40 + 50))
            ok = step("fc_all.sh: fc on its own sources", [fcbin] + fc_args, fcdir)
            for s in samples:
                ok = step("myfc.sh " + s, [fcbin] + [a if a != "$1" else s for a in s_args], sdir) and ok
            ok = step("cmd/build_sample_md/fc.sh", [fcbin] + [a if a != "$1" else "build_sample_md.fo" for a in t_args], tdir) and ok
            outs = [os.path.join(cp, rel) for rel in fc_gen + s_gen + t_gen if os.path.exists(os.path.join(cp, rel))]
            ok = step("gofmt", ["gofmt", "-w"] + outs, cp) and ok
            tool = os.path.join(work, "tool%d" % g)
            if step("go build build_sample_md (from the regenerated file)", ["go", "build", "-o", tool, "."], tdir):
                ok = step("build_sample_md filelist.txt", [tool, "filelist.txt"], sdir) and ok
            else:
                ok = False
            cur = {}
            for rel in fc_gen + s_gen + t_gen + ["samples/README.md"]:
                same = compare(rel, g, checked[rel], "the checked-in file")
                if g > 1 and same is False and prev.get(rel) is not None:
                    compare(rel, g, prev[rel], "generation %d" % (g - 1))
                ok = ok and same
                p = os.path.join(cp, rel)
                cur[rel] = open(p, "rb").read() if os.path.exists(p) else None
            prev = cur
            ctx.obligations.append(("exec:generation%d reproduces %d files" % (g, len(checked)), ok, ""))
            if not ok:
                allok = False
                ctx.broken.append("exec:generation%d" % g)
                break        # later generations start from files that are already different
        ctx.streams["c04.regen"] = {"files": len(checked), "generations": gens, "ok": allok,
                                    "fc_recipe": fc_args, "samples": len(samples)}
        ctx.samples.append({"stream": "c04.regen", "files": sorted(checked)[:40],
                            "sha1_checked_in": {k: hashlib.sha1(v).hexdigest()[:12] for k, v in sorted(checked.items())[:6] if v}})
    finally:
        shutil.rmtree(work, ignore_errors=True)
    ctx.finish(rule="every file the property names: fc/gen_*.go written by the recipe of fc/fc_all.sh, samples/gen_*.go of every sample listed in samples/filelist.txt, cmd/build_sample_md/gen_build_sample_md.go and samples/README.md; regenerated in a scratch copy of the working tree by the compiler built from the tree (generation 1) and by the compiler built from that output (generation 2; thorough: 3), gofmt, byte comparison with the checked-in file; evaluations = file comparisons, distinct = distinct files; the space is finite and enumerated completely",
               extra_cov={"exhaustive": True})


def replay(ctx, path):
    data = json.load(open(path))
    print("recorded:", json.dumps(data.get("violation") or data)[:3000])
    return 1
