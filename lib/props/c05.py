import glob, hashlib, json, os, re, shutil, subprocess, tempfile, vlib

THEOREMS = ["Folang.Props.C05." + t for t in """addAll_get addAll_const_get eqsUnion_order_indep rsRegisterNewEI_order_indep
find_perm_nodup piRegAll_order_indep exhaustive_decision_order_indep lookupRecFac_order_indep strict_sorted_perm_unique
lookup_unfixed_order_dependent fact_enumSites fact_enumCallers fact_lookupRecFacCalls""".split()] + \
    ["Folang.Props.C05Compose." + t for t in "runFrom_order_indep run_deterministic one_dependent_stage_breaks orderIndep_of_ignores".split()]

ASSUMPTIONS = [
    "model: dict.Keys/Values/KVs return an arbitrary permutation of the entries; each of the seven consumers in fc (eqsItems->rsRegisterNewEI, eqsUnion x2, scLookupRecFacCur, piRegAll x2, exaustiveCheck) is modelled over the dict model of C14",
    "composition: run_deterministic (Props/C05Compose.lean) proves that a sequence of stages each of which is order independent produces the same output whatever orders the runtime picks at each site and each run; that the real compiler is such a sequence in which only the inventoried sites consult an enumeration is the regenerated inventory, and that each inventoried consumer is order independent is proved on its model - the instantiation of the abstract stages by the real functions is not a theorem: the rest of the compiler is a deterministic function of its inputs because the regenerated inventory shows no other enumeration, goroutine, time, rand, environment or %p use",
    "tie/search: fc built against a dict package whose Keys/Values/KVs return adversarial permutations (overlay; /repo untouched) under several seeds, plus repeated runs of the stock binary: output bytes and exit status must be identical; the exhaustiveness diagnostic may name different cases (allowed by the statement)",
]

FC_SOURCES = "ftype.fo ast.fo expr_to_type.fo expr_to_go.fo stmt_to_go.fo tokenizer.fo ast_util.fo ir_factory.fo parse_state.fo infer.fo parser.fo main.fo".split()


def build_fcperm(ctx):
    out = os.path.join(vlib.BUILD, "fcperm")
    ov = os.path.join(vlib.BUILD, "fcperm.overlay.json")
    with vlib.Lock("go-fcperm"):
        json.dump({"Replace": {os.path.join(vlib.REPO, "pkg", "dict", "dict.go"): os.path.join(vlib.VERIF, "harness", "dictperm", "dict.go")}}, open(ov, "w"))
        if os.path.exists(out):
            os.remove(out)
        rc, o = vlib.sh(["go", "build", "-overlay", ov, "-o", out, "."], cwd=os.path.join(vlib.REPO, "fc"), env=vlib.GOENV, timeout=600)
    if rc != 0:
        ctx.fail_infra("go build fcperm failed:\n" + o)
    return out


def run_one(binary, files, seed, wd):
    """copy `files` (list of (name, content)) into a fresh dir, run binary on them; returns (rc, normalised stdout, {gen: sha})"""
    d = tempfile.mkdtemp(prefix="r.", dir=wd)
    for n, c in files:
        open(os.path.join(d, n), "w").write(c)
    env = dict(os.environ, FOLANG_DICT_SEED=str(seed), GOMAXPROCS="1")
    args = [os.path.join(vlib.REPO, "pkg", "pkg_all.foi")] + [n for n, _ in files]
    try:
        p = subprocess.run([binary] + args, cwd=d, stdout=subprocess.PIPE, stderr=subprocess.PIPE, timeout=120, env=env)
        rc, out = p.returncode, p.stdout.decode(errors="replace")
    except subprocess.TimeoutExpired:
        rc, out = "timeout", ""
    out = re.sub(r"Can't find case: \w+\.", "Can't find case: <some uncovered case>.", out)
    gens = {}
    for g in sorted(glob.glob(os.path.join(d, "gen_*.go"))):
        gens[os.path.basename(g)] = hashlib.sha1(open(g, "rb").read()).hexdigest()
    shutil.rmtree(d, ignore_errors=True)
    return rc, out, gens


def programs():
    ps = []
    for p in sorted(glob.glob(os.path.join(vlib.VERIF, "corpus", "C05", "*.fo"))):
        ps.append([(os.path.basename(p), open(p).read())])
    for p in sorted(glob.glob(os.path.join(vlib.REPO, "samples", "*.fo"))):
        ps.append([(os.path.basename(p), open(p).read())])
    ps.append([("build_sample_md.fo", open(os.path.join(vlib.REPO, "cmd", "build_sample_md", "build_sample_md.fo")).read())])
    ps.append([(f, open(os.path.join(vlib.REPO, "fc", f)).read()) for f in FC_SOURCES])     # the compiler itself
    return ps


def run(ctx):
    ctx.build_go("extract")
    ctx.regenerate("enum", "EnumFacts.lean")
    fc = ctx.build_go("fc", srcdir=os.path.join(vlib.REPO, "fc"), out=os.path.join(vlib.BUILD, "fc"))
    fcperm = build_fcperm(ctx)
    ctx.assumptions += ASSUMPTIONS
    ctx.partial.append("composition of the consumer theorems into whole-compiler determinism is argued + tested, not proved")
    ctx.lake_build(["Folang.Props.C05", "Folang.Props.C05Facts", "Folang.Props.C05Compose"])
    ctx.audit(THEOREMS, ["Folang.Props.C05", "Folang.Props.C05Facts", "Folang.Props.C05Compose"])
    if ctx.tier == "thorough":
        ctx.leanchecker(["Folang.Props.C05", "Folang.Props.C05Facts", "Folang.Props.C05Compose"])
    seeds = list(range(0, 6)) if ctx.tier == "quick" else list(range(0, 48))
    seeds = [s + (0 if s < 2 else ctx.seed * 100) for s in seeds]
    repeats = 3 if ctx.tier == "quick" else 12
    wd = tempfile.mkdtemp(prefix="c05.", dir=vlib.BUILD)
    ok_all = True
    ps = programs()
    for files in ps:
        name = files[0][0] if len(files) == 1 else "fc-self(%d files)" % len(files)
        base = run_one(fc, files, 0, wd)
        runs = [("stock#%d" % i, run_one(fc, files, 0, wd)) for i in range(repeats)]
        runs += [("perm seed %d" % s, run_one(fcperm, files, s, wd)) for s in seeds]
        ctx.evaluations += len(runs) + 1
        ctx.distinct.add(hashlib.sha1(("".join(c for _, c in files)).encode()).digest()[:10])
        for label, r in runs:
            if r != base:
                ok_all = False
                what = "exit status" if r[0] != base[0] else ("output files" if r[2] != base[2] else "stdout")
                ctx.direct.append({"kind": "result depends on enumeration order / run: %s differs" % what, "program": name,
                                   "files": [n for n, _ in files], "run": label, "baseline": [base[0], base[1][-300:], base[2]],
                                   "observed": [r[0], r[1][-300:], r[2]], "source": files[0][1] if len(files) == 1 else "(fc sources)"})
                break
    ctx.obligations.append(("search:permuted-dict runs identical", ok_all, ""))
    ctx.stats["programs"] = len(ps)
    ctx.stats["runs_per_program"] = repeats + len(seeds) + 1
    ctx.samples.append({"stream": "perm-runs", "input": "corpus/C05/same_fields.fo under FOLANG_DICT_SEED=%s" % seeds, "impl": "identical gen files / exit status"})
    shutil.rmtree(wd, ignore_errors=True)
    ctx.finish(rule="every program of the corpus (hand-kept: records with equal field sets, many package_info entries / inference variables / generic unions, a non-exhaustive match with two uncovered cases; all samples; the build_sample_md tool; the 12 compiler sources in one invocation) x repeated runs of the stock binary x permutation seeds of the adversarial dict; gen file bytes, exit status and (normalised) stdout must be identical; distinct = distinct programs")


def replay(ctx, path):
    data = json.load(open(path))
    v = data.get("violation") or {}
    print("recorded:", json.dumps(v or data)[:3000])
    return 1
