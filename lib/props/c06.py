import binascii, glob, json, os, subprocess, vlib
from props import gocommon

THEOREMS = ["Folang.Props.C06." + t for t in "col_invariant_init col_invariant_step col_invariant indent_shift".split()] + \
    ["Folang.Tokenizer." + t for t in "scan_blanks nextNonSpace_blanks nextNonSpace_fuel spaceLen_blanks".split()] + \
    ["Folang.Props.C06Block." + t for t in "block_roundtrip layout_invariance dedent_ends_block overrun_rejected block_result_unique lay₁_lays lay₂_lays fact_columnUses".split()] + \
    ["Folang.Offside." + t for t in "pStmt_lays pList_lays".split()] + \
    ["Folang.Props.C06Else." + t for t in "d21_rejected d21_misread inner_else_same_tree".split()]

ASSUMPTIONS = [
    "offside scheme (Model/Offside.lean: parseBlock / parseStmtList / isEndOfBlock / psPushOffside / psSkipEOL over tokens that carry a kind and the tokenizer's column; every block opener - the = of a function definition, ->, then, else - is one token kind, every other token a word): block_roundtrip proves that EVERY layout of a block structure (each nested block at any column right of its opening statement, on the same line or after any number of end-of-line tokens, any columns for the other tokens of a line, any number of blank / comment lines) is read back as exactly that structure and that the parser stops at the first token left of the block; layout_invariance, dedent_ends_block, overrun_rejected are corollaries; fact_columnUses (regenerated) lists every function of fc that reads a column",
    "tie of the offside model: stream c06.block - random block structures rendered as real Folang under random layouts; the REAL tokenizer's tokens go to the model, whose reading must equal the block structure of the REAL parser's AST (every Block value, by reflection), and both must equal the rendered structure; dedent variants included. Not in the model: the expression grammar inside a statement (C08), a right parenthesis ending a block, inline one-line if",
    "PARTIAL: C06_full (emitted Go invariant under every re-layout of the layout grammar) is stated, not proved; proved: indent_shift (after an EOL token, k more blanks in front of a line leave its first token unchanged and move its column and begin by exactly k: all byte strings, comments and tabs included), scan_blanks / nextNonSpace_blanks (blanks merge into one SPACE token exactly k bytes longer), and col_invariant for the byte-level tokenizer model (all inputs, all reachable states)",
    "the parser's use of columns (psPushOffside / isEndOfBlock / insideOffside / psSkipEOL) is not modelled: tied by the layout stream (one abstract program under many random layouts through the real compiler; byte-identical Go required) and the dedent test (a statement indented less than its block must behave as moved out of it)",
    "layout grammar = the list in the statement: block indentation by any positive amount, blank lines, trailing blanks, line/block comments between or after statements, arms and definitions, if on one line or several, let right-hand side and arm body on the same or the next line, pipeline broken before any |>; record literal fields and call arguments are never broken across lines",
    "known findings D10 (newline inside a block comment before code on the same line), D13 ($\"...\" token begins one byte late), D15 (a dedented line starting with a binary operator continues the expression), D21 (an else left of the enclosing block is taken by an inner if without else); generators avoid them",
]

KNOWN = {"d10_multiline_comment": "D10", "d13_interp_first_token": "D13", "d15_dedented_operator": "D15", "d21_dangling_else": "D21"}


def tsrc(fcdrv, paths):
    p = subprocess.run([fcdrv], env=gocommon.fc_env("tsrc", "0 0 " + " ".join(paths)), stdout=subprocess.PIPE, stderr=subprocess.PIPE, text=True, timeout=600)
    res = {}
    for ln in p.stdout.split("\n"):
        parts = ln.split(" ")
        if len(parts) == 4 and parts[0] == "T":
            res[parts[1]] = (parts[2], binascii.unhexlify(parts[3][1:]).decode(errors="replace"))
    return res


def run(ctx):
    ctx.ensure_oracle()
    fcdrv = ctx.build_fcdrv()
    ctx.assumptions += ASSUMPTIONS
    ctx.partial += ["C06_full (for the whole real parser and emitter) not proved: the offside scheme is proved on the model of the block parser, the expression grammar inside statements is C08's, their composition with the emitter is decided per program by the layout stream"]
    ctx.build_go("extract")
    ctx.regenerate("offside", "OffsideFacts.lean")
    mods = ["Folang.Props.C06", "Folang.Props.C06Block", "Folang.Props.C06Else"]
    ctx.lake_build(mods)
    ctx.audit(THEOREMS, mods)
    if ctx.tier == "thorough":
        ctx.leanchecker(mods)
    # tokenizer correspondence incl. columns (the model col_invariant is about)
    n = 800 if ctx.tier == "quick" else 20000
    ctx.stream("tok", [fcdrv], env=gocommon.fc_env("tok", "%d %d" % (ctx.seed + 3, n)), timeout=3000)
    # offside model vs the real tokenizer + parser
    bargs = "%d 150 5" % (ctx.seed + 11) if ctx.tier == "quick" else "%d 2500 6" % (ctx.seed + 11)
    ctx.stream("c06.block", [fcdrv], env=gocommon.fc_env("c06block", bargs), timeout=6000)
    # layout metamorphic runs + dedent test
    args = "%d 120 6" % ctx.seed if ctx.tier == "quick" else "%d 800 14" % ctx.seed
    r = ctx.run_harness([fcdrv], env=gocommon.fc_env("c06", args), timeout=20000)
    ok = r is not None
    if ok:
        _, _, vio, stats = r
        for k, v in stats.items():
            ctx.stats["layout:" + k] = v
        ctx.evaluations += stats.get("layouts", 0) + stats.get("dedent", 0)
        for i in range(stats.get("programs", 0)):
            ctx.distinct.add(("layout-program", i))
        ctx.direct += vio
        ctx.samples.append({"stream": "layout", "input": "abstract program x %s" % args, "impl": str(stats)})
    ctx.obligations.append(("search:layout-invariance", ok and not r[2], "" if ok else "harness failed"))
    if not ok:
        ctx.broken.append("search:layout")
    # known findings
    paths = sorted(glob.glob(os.path.join(vlib.VERIF, "corpus", "C06", "*.fo")))
    res = tsrc(fcdrv, paths)
    kf = {k["id"]: k for k in ctx.known_findings()}
    for base, kid in KNOWN.items():
        p = os.path.join(vlib.VERIF, "corpus", "C06", base + ".fo")
        can = os.path.join(vlib.VERIF, "corpus", "C06", base + ".canonical.fo")
        st = res.get(p)
        if st is None:
            continue
        if kid == "D15":
            still = st[0] == "ok"      # the dedented operator line is (wrongly) accepted as a continuation
        else:
            still = st[0] == "err" or (os.path.exists(can) and res.get(can) != st)
        k = kf.get(kid)
        if still and k and k.get("status") == "known":
            ctx.known_line(k["what"])
        elif still:
            ctx.direct.append({"kind": "layout finding not listed as known", "program": open(p).read(), "observed": st})
        else:
            ctx.notes.append("known finding %s no longer reproduces" % kid)
    ctx.finish(rule="tokenizer streams (columns included) + one abstract program per case rendered under 6 (quick) / 14 (thorough) random layouts with independent choices at every block, statement, arm, definition and pipeline stage, emitted Go compared byte for byte with the canonical layout's; dedent test on if-only bodies; c06.block: random block structures x random layouts, model reading of the real token stream vs the real parser's block structure vs the rendered structure; distinct = distinct abstract programs")


def replay(ctx, path):
    data = json.load(open(path))
    v = data.get("violation") or {}
    print("recorded:", json.dumps(v or data)[:5000])
    return 1
