import glob, json, os, vlib
from props import gocommon
from props.c06 import tsrc

THEOREMS = ["Folang.Props.C07." + t for t in """lookup_frame register_swap register_perm drop_unreferenced split_files
unfixed_key_collision fixed_no_collision split_unique joinWith_inj encodedKey_inj typeinfo_frame typeinfo_frame_partial fact_fcGlobals
item_split item_append_comma joinWith_inj_items joinWith_inj_items_nonempty encodedKey_inj_balanced encodedKey_inj_balanced_nonempty typeinfo_frame_balanced
item_eq_scan scan_append scan_mono toGo_bal toGoList_bal toGo_items encodedKey_inj_types""".split()]

ASSUMPTIONS = [
    "PARTIAL: the state a definition can read (root scope dictionaries of the single ParseState, the two process-global type-info dictionaries keyed by encodedKey, uniqueId) is modelled as finite maps; frame / commutation / file-splitting theorems are about these maps; the per-definition translation itself is abstract",
    "that the translation reads the state only through these lookups is tied by metamorphic runs of the real compiler in-process (swap two independent groups of definitions, drop one, insert an unrelated record+function, cut into three files in dependency order): per-declaration Go text compared after renumbering _vN by first occurrence",
    "regenerated fact: the package-level variables of fc are exactly the modelled ones (a new global fails the obligation)",
    "defect D14 (the type-info key name_arg_arg was not injective: A<B_C> vs A_B<C>) is repaired in c59ed89 (key name<arg,arg>): encodedKey_inj proves injectivity for names without < and non-empty argument texts without a comma; typeinfo_frame is then unconditional for such instances; encodedKey_inj_balanced / typeinfo_frame_balanced (Props/C07Balanced.lean) prove the same for EVERY bracket-balanced argument text whose commas stand inside brackets (tuples frt.Tuple2[int, string], function types func (int, string) bool, generic instances with several arguments, the empty text of unit), given that a type name has one arity; toGo_items / encodedKey_inj_types (Props/C07Texts.lean) prove that the MODEL of FTypeToGo (Model/TypeExpr.lean, the one tied by c15.type) renders every type whose type names hold no bracket or comma as such a text, so for modelled types the key is injective without a hypothesis on texts; that the real FTypeToGo produces these texts and that the real encodedKey is the modelled one is the correspondence stream c07.key (random type arguments parsed by the real parseType; the model answers with the key and with whether the hypotheses of the theorem hold for the instance); corpus/C07/d14_key_collision.fo is the regression program",
]


def run(ctx):
    ctx.build_go("extract")
    ctx.regenerate("globals", "GlobalFacts.lean")
    fcdrv = ctx.build_fcdrv()
    ctx.assumptions += ASSUMPTIONS
    ctx.partial.append("per-definition translation not modelled (read-set tied by metamorphic runs)")
    ctx.lake_build(["Folang.Props.C07", "Folang.Props.C07Balanced", "Folang.Props.C07Texts"])
    ctx.audit(THEOREMS, ["Folang.Props.C07", "Folang.Props.C07Balanced", "Folang.Props.C07Texts"])
    if ctx.tier == "thorough":
        ctx.leanchecker(["Folang.Props.C07", "Folang.Props.C07Balanced", "Folang.Props.C07Texts"])
    ctx.stream("c07.key", [fcdrv], env=gocommon.fc_env("c07key", "%d %d" % (ctx.seed, 3000 if ctx.tier == "quick" else 60000)), timeout=3000)
    n = 60 if ctx.tier == "quick" else 900
    r = ctx.run_harness([fcdrv], env=gocommon.fc_env("c07", "%d %d" % (ctx.seed, n)), timeout=20000)
    ok = r is not None
    if ok:
        _, _, vio, stats = r
        for k, v in stats.items():
            ctx.stats["metamorphic:" + k] = v
        ctx.evaluations += sum(v for k, v in stats.items() if k.startswith("variant."))
        for i in range(stats.get("programs", 0)):
            ctx.distinct.add(("c07-program", i))
        ctx.direct += vio
        ctx.samples.append({"stream": "metamorphic", "input": "two generated definition groups A, B: A;B vs B;A vs A vs [prelude][A][B] vs insert-unrelated", "impl": str(stats)})
    ctx.obligations.append(("search:metamorphic-independence", ok and not r[2], "" if ok else "harness failed"))
    if not ok:
        ctx.broken.append("search:metamorphic")
    # each X.fo yields gen_X.go next to it, a .foi yields nothing (real binary)
    import shutil, subprocess, tempfile
    fc = ctx.build_go("fc", srcdir=os.path.join(vlib.REPO, "fc"), out=os.path.join(vlib.BUILD, "fc"))
    d = tempfile.mkdtemp(prefix="c07.", dir=vlib.BUILD)
    os.makedirs(os.path.join(d, "sub"))
    open(os.path.join(d, "decl.foi"), "w").write("package_info ext =\n  let Zed: int->int\n")
    open(os.path.join(d, "a.fo"), "w").write("package main\n\nlet fa (x:int) =\n  x + 1\n")
    open(os.path.join(d, "sub", "b.fo"), "w").write("package main\n\nlet fb (x:int) =\n  fa (ext.Zed x)\n")
    # names with further dots, dashes, a common first component, a dotted directory: X is the file name
    # without its .fo suffix, whatever else it contains
    odd = ["geo.types.fo", "geo.ops.fo", "x-y_z.fo", os.path.join("dir.v2", "m.n.fo"), "twice.fo.fo"]
    os.makedirs(os.path.join(d, "dir.v2"))
    for k, name in enumerate(odd):
        open(os.path.join(d, name), "w").write("package main\n\nlet odd%d (x:int) =\n  x + %d\n" % (k, k))
    p = subprocess.run([fc, "decl.foi", "a.fo", os.path.join("sub", "b.fo")] + odd, cwd=d, stdout=subprocess.PIPE, stderr=subprocess.PIPE, text=True, timeout=60)
    files = sorted(os.path.relpath(os.path.join(dp, f), d) for dp, _, fs in os.walk(d) for f in fs)
    want = sorted(["a.fo", "decl.foi", "gen_a.go", "sub/b.fo", "sub/gen_b.go"] + odd +
                  [os.path.join(os.path.dirname(n), "gen_" + os.path.basename(n)[:-3] + ".go") for n in odd])
    okf = p.returncode == 0 and files == want and "fa(ext.Zed(x))" in open(os.path.join(d, "sub", "gen_b.go")).read() and \
        all(("func odd%d(" % k) in open(os.path.join(d, os.path.dirname(n), "gen_" + os.path.basename(n)[:-3] + ".go")).read() for k, n in enumerate(odd))
    ctx.evaluations += 1
    ctx.obligations.append(("binary:output naming and later files see earlier definitions", okf, "" if okf else "rc=%s files=%s out=%s" % (p.returncode, files, p.stdout[-300:])))
    if not okf:
        ctx.broken.append("binary:naming")
        ctx.direct.append({"kind": "file naming / cross-file visibility", "files": files, "expected": want, "stdout": p.stdout[-500:]})
    shutil.rmtree(d, ignore_errors=True)
    # defect D14 (repaired): must not return
    base = os.path.join(vlib.VERIF, "corpus", "C07", "d14_key_collision")
    res = tsrc(fcdrv, [base + ".fo", base + ".base.fo"])
    kf = {k["id"]: k for k in ctx.known_findings()}
    st = res.get(base + ".fo")
    sb = res.get(base + ".base.fo")
    if st and sb and sb[0] == "ok" and st[0] != "ok":
        if kf.get("D14", {}).get("status") == "known":
            ctx.known_line(kf["D14"]["what"])
        else:
            ctx.direct.append({"kind": "inserting an unrelated definition makes another definition fail (not listed as known)", "program": open(base + ".fo").read(), "error": st[1]})
    elif st and st[0] == "ok":
        ctx.notes.append("known finding D14 no longer reproduces")
    ctx.finish(rule="pairs of generated definition groups (each 1-3 helper functions + an entry function over shared record/union/helper declarations): swap, drop, insert an unrelated record and function, split into three files passed to one parse state in dependency order; per-declaration Go text (go/parser, _vN renumbered) must be identical; real binary for output naming; distinct = distinct program pairs")


def replay(ctx, path):
    data = json.load(open(path))
    v = data.get("violation") or {}
    print("recorded:", json.dumps(v or data)[:5000])
    return 1
