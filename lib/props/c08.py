import json, os, vlib

THEOREMS = ["Folang.Props.C08." + t for t in """group_bin_tighter climb_spec climb_eq_group group_flatten insert_canon
group_canon table_is_published fact_precedenceUses ranks_positive climb_fuel tokSim exprP_eq_group group_of_canon canon_ops_ge""".split()] + \
    ["Folang.Props.C08R.tokSimR", "Folang.Props.C08R.exprP_eq_groupR", "Folang.Props.C08T.pTerm_reads", "Folang.Props.C08T.reads_all", "Folang.Props.C08T.expr_roundtrip", "Folang.Props.C08T.sampleOT_wf"]

ASSUMPTIONS = [
    "model: parseExprWithPrec/parseBinAfter as precedence climbing over a chain of opaque operands (climb) and, for the oracle, over tokens with psSkipEOL (exprP/binAfter) plus a concrete term parser for names, applications, not and parentheses",
    "specification: insertion of each operator into the right spine (group), validated by group_flatten and group_canon",
    "token level (Props/C08Tok.lean): exprP_eq_group — for ANY term parser that reads the tokens of every operand, the model of parseExprWithPrec/parseBinAfter WITH their psSkipEOL calls, on an operand followed by an operator chain with any number of ends of line before each operator, returns the reference grouping and consumes everything up to what follows the chain (tokSim: it equals the chain-level function climb for every minPrec, and the state it returns when it stops at a looser operator is the one after psSkipEOL, as in the code). The concrete term parser the oracle runs (Model/TermParser.lean: names, applications, not, parentheses) is PROVED to read back every well-formed operand, to any nesting depth (pTerm_reads), so expr_roundtrip gives the reference grouping for the whole expression parser of the fragment (group_of_canon: a canonical tree is the grouping of its own chain); it is tied to the real parseTerm / parseAtomList / parseAtom by the c08.chain stream",
    "tie: regenerated binOpMap and uses of Precedence in gen_parser.go (go/ast); c08.chain stream: source text -> real parser + emitter -> grouping read back from the emitted Go with go/parser vs the model",
]


def run(ctx):
    ctx.build_go("extract")
    ctx.regenerate("fc", "FcFacts.lean")
    ctx.ensure_oracle()
    fcdrv = ctx.build_fcdrv()
    ctx.assumptions += ASSUMPTIONS
    ctx.partial.append("token-level refinement (exprP = climb on rendered chains) is executed, not proved")
    ctx.lake_build(["Folang.Props.C08", "Folang.Props.C08Facts", "Folang.Props.C08Tok", "Folang.Props.C08R", "Folang.Props.C08Term"])
    ctx.audit(THEOREMS, ["Folang.Props.C08", "Folang.Props.C08Facts", "Folang.Props.C08Tok", "Folang.Props.C08R", "Folang.Props.C08Term"])
    if ctx.tier == "thorough":
        ctx.leanchecker(["Folang.Props.C08", "Folang.Props.C08Facts", "Folang.Props.C08Tok", "Folang.Props.C08R", "Folang.Props.C08Term"])
    if ctx.tier == "quick":
        cmds = ["%d 2000 3" % ctx.seed]
    else:
        cmds = ["%d 50000 4" % ctx.seed]
    full = [["env", "FC_VERIF=c08", "FC_VERIF_ARGS=" + a, fcdrv] for a in cmds]
    ctx.stream_parallel("c08.chain", full, par=1)
    ctx.finish(rule="every sequence of up to 3 (quick) / 4 (thorough) of the 12 non-pipe operators x 3 operand shapes (atomic, applied, parenthesised), enumerated exhaustively, plus seeded random chains up to 12 operators with pipes, not, nested parentheses, applications and 0-2 line breaks before operators; grouping read from the emitted Go vs the model AND vs a table-driven reference in the harness; distinct = distinct chains")


def replay(ctx, path):
    data = json.load(open(path))
    ctx.ensure_oracle()
    v = data.get("violation") or {}
    print("recorded:", json.dumps(v or data)[:3000])
    ch = v.get("chain")
    if ch:
        print("model   :", ctx.oracle(["(c08.chain %s)" % ch])[0])
    print("re-run `./check C08 quick` to see whether the current tree still fails")
    return 1
