import json, os, vlib

THEOREMS = ["Folang.Props.C08." + t for t in """group_bin_tighter climb_spec climb_eq_group group_flatten insert_canon
group_canon table_is_published fact_precedenceUses ranks_positive""".split()]

ASSUMPTIONS = [
    "model: parseExprWithPrec/parseBinAfter as precedence climbing over a chain of opaque operands (climb) and, for the oracle, over tokens with psSkipEOL (exprP/binAfter) plus a concrete term parser for names, applications, not and parentheses",
    "specification: insertion of each operator into the right spine (group), validated by group_flatten and group_canon",
    "partial: the token-level parser (exprP with the concrete term parser) is tied to the chain-level theorem by execution in the oracle (every answer is re-checked against group) and to the real parser by the c08.chain stream, not by a Lean refinement proof",
    "tie: regenerated binOpMap and uses of Precedence in gen_parser.go (go/ast); c08.chain stream: source text -> real parser + emitter -> grouping read back from the emitted Go with go/parser vs the model",
]


def run(ctx):
    ctx.build_go("extract")
    ctx.regenerate("fc", "FcFacts.lean")
    ctx.ensure_oracle()
    fcdrv = ctx.build_fcdrv()
    ctx.assumptions += ASSUMPTIONS
    ctx.partial.append("token-level refinement (exprP = climb on rendered chains) is executed, not proved")
    ctx.lake_build(["Folang.Props.C08", "Folang.Props.C08Facts"])
    ctx.audit(THEOREMS, ["Folang.Props.C08", "Folang.Props.C08Facts"])
    if ctx.tier == "thorough":
        ctx.leanchecker(["Folang.Props.C08", "Folang.Props.C08Facts"])
    if ctx.tier == "quick":
        cmds = ["%d 2000 3" % ctx.seed]
    else:
        cmds = ["%d 50000 4" % ctx.seed]
    full = [["env", "FC_VERIF=c08", "FC_VERIF_ARGS=" + a, fcdrv] for a in cmds]
    ctx.stream_parallel("c08.chain", full, par=1)
    ctx.finish(rule="every sequence of up to 3 (quick) / 4 (thorough) of the 12 non-pipe operators x 3 operand shapes (atomic, applied, parenthesised), enumerated exhaustively, plus seeded random chains up to 12 operators with pipes, not, nested parentheses, applications and 0-2 line breaks before operators; grouping read from the emitted Go vs the model AND vs a table-driven reference in the harness; distinct = distinct chains")


def replay(ctx, path):
    data = json.load(open(path))
    ctx.ensure_oracle()
    v = data.get("violation") or {}
    print("recorded:", json.dumps(v or data)[:3000])
    ch = v.get("chain")
    if ch:
        print("model   :", ctx.oracle(["(c08.chain %s)" % ch])[0])
    print("re-run `./check C08 quick` to see whether the current tree still fails")
    return 1
