import json, os, shutil, tempfile, vlib

THEOREMS = ["Folang.Props.C09." + t for t in """marked_get marked_wf exaustiveCheck_accept_iff accept_iff
diag_names_uncovered dispatch_total""".split()]

ASSUMPTIONS = [
    "model: exaustiveCheck over the dict model of C14 (coverage map from ToDict, Add per arm, KVs in an arbitrary order), parseMatchRules/parseURules decision skeleton (default-only rejected, default arm skips the check)",
    "arm parsing itself (offside, payload binding) is not modelled: tied by the c09.match stream (every union of 1..N cases x every ordered arm subset x default x arm forms x nesting contexts through the real parser)",
    "a nil interface value (frt.Empty) is outside dispatch_total: only constructor-built values are covered",
    "command level (non-zero exit, diagnostic, no output file) is sampled with the real binary here and proved for the driver model in C16",
]

NONEXH = """package main

type U =
  | Aa of int
  | Bb
  | Cc of string

let f (u: U) =
  match u with
  | Cc s -> 1
  | Aa _ -> 2
"""
EXH = NONEXH + "  | Bb -> 3\n"


def binary_level(ctx, fc):
    """the command-level clause on the real binary: rejected => exit != 0, diagnostic naming an
    uncovered case, no gen file; accepted => exit 0 and gen file"""
    d = tempfile.mkdtemp(prefix="c09.", dir=vlib.BUILD)
    try:
        for name, src, want_ok in (("nonexh", NONEXH, False), ("exh", EXH, True)):
            p = os.path.join(d, name + ".fo")
            open(p, "w").write(src)
            rc, out = vlib.sh([fc, p], timeout=60)
            gen = os.path.exists(os.path.join(d, "gen_%s.go" % name))
            ok = (rc == 0 and gen) if want_ok else (rc != 0 and not gen and "Can't find case: Bb" in out)
            ctx.evaluations += 1
            ctx.obligations.append(("binary:%s" % name, ok, "" if ok else "rc=%s gen=%s out=%s" % (rc, gen, out[-300:])))
            if not ok:
                ctx.broken.append("binary:" + name)
                ctx.direct.append({"kind": "command-level behaviour of a %s match" % name, "source": src, "exit": rc, "gen_file_written": gen, "stdout": out[-500:]})
    finally:
        shutil.rmtree(d, ignore_errors=True)


def run(ctx):
    ctx.ensure_oracle()
    fcdrv = ctx.build_fcdrv()
    fc = ctx.build_go("fc", srcdir=os.path.join(vlib.REPO, "fc"), out=os.path.join(vlib.BUILD, "fc"))
    ctx.assumptions += ASSUMPTIONS
    ctx.lake_build(["Folang.Props.C09"])
    ctx.audit(THEOREMS, ["Folang.Props.C09"])
    if ctx.tier == "thorough":
        ctx.leanchecker(["Folang.Props.C09"])
    args = "%d 600 4" % ctx.seed if ctx.tier == "quick" else "%d 20000 5" % ctx.seed
    ctx.stream_parallel("c09.match", [["env", "FC_VERIF=c09", "FC_VERIF_ARGS=" + args, fcdrv]], par=1)
    binary_level(ctx, fc)
    ctx.finish(rule="every union of 1..4 (quick) / 1..5 (thorough) cases x 4 payload mixes x EVERY non-empty ordered subset of arms x with/without default x arm forms (bind / ignore / no payload) x nesting contexts (top level, after let inside if, inside lambda, inside an outer arm), plus random matches with repeated arms; accept/reject and named case vs the model and vs the statement itself; distinct = distinct (cases, arms, default, named) tuples")


def replay(ctx, path):
    data = json.load(open(path))
    v = data.get("violation") or {}
    print("recorded:", json.dumps(v or data)[:2000])
    src = v.get("source")
    if src:
        fc = ctx.build_go("fc", srcdir=os.path.join(vlib.REPO, "fc"), out=os.path.join(vlib.BUILD, "fc"))
        d = tempfile.mkdtemp(prefix="c09r.", dir=vlib.BUILD)
        open(os.path.join(d, "r.fo"), "w").write(src)
        rc, out = vlib.sh([fc, os.path.join(d, "r.fo")], timeout=60)
        print("current tree: exit=%s gen=%s stdout=%s" % (rc, os.path.exists(os.path.join(d, "gen_r.go")), out))
        shutil.rmtree(d, ignore_errors=True)
    return 1
