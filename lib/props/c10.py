import json, os, shutil, vlib

THEOREMS = ["Folang.Props.C10." + t for t in """cmp_lower cmp_norm opEqual_iff opEqual_never_panics opEqual_refl
opEqual_symm opEqual_trans opNotEqual_neg unfixed_nil_vs_empty unfixed_lowercase_field_panics""".split()]

ASSUMPTIONS = [
    "model: github.com/google/go-cmp v0.6.0 cmp.Equal on ints/strings/bools/structs/interfaces/slices: different dynamic types are unequal, all struct fields are visited, an unexported field panics unless an Exporter allows it, nil and empty slices differ unless EquateEmpty, slices equal iff same length and pairwise equal",
    "model: representation of Folang values (records -> structs with the same field names, union case -> struct U_C with field Value behind interface U, tuples -> frt.TupleN, slices nil or non-nil when empty); type identity of structs is (union, case) / record name",
    "tie: eq.pair stream: value pairs of real fc-emitted types (prelude transpiled by the real fc at check time), built through different library paths, compared by the emitted = / <> functions, vs the model on the observed Go values",
    "floats, functions, maps and pointers are outside the statement (first-order values only)",
]


def build_eqdrv(ctx):
    fc = ctx.build_go("fc", srcdir=os.path.join(vlib.REPO, "fc"), out=os.path.join(vlib.BUILD, "fc"))
    wd = os.path.join(vlib.BUILD, "eqdrv.work")
    with vlib.Lock("eqdrv"):
        shutil.rmtree(wd, ignore_errors=True)
        os.makedirs(wd)
        src = os.path.join(vlib.VERIF, "harness", "eqdrv")
        shutil.copy(os.path.join(src, "main.go"), wd)
        shutil.copy(os.path.join(src, "eqtypes.fo"), wd)
        open(os.path.join(wd, "go.mod"), "w").write(open(os.path.join(src, "go.mod.tmpl")).read().replace("REPO", vlib.REPO))
        shutil.copy(os.path.join(vlib.REPO, "pkg", "slice", "go.sum"), wd)
        rc, o = vlib.sh([fc, os.path.join(vlib.REPO, "pkg", "pkg_all.foi"), "eqtypes.fo"], cwd=wd, timeout=120)
        if rc != 0 or not os.path.exists(os.path.join(wd, "gen_eqtypes.go")):
            ctx.fail_infra("fc failed on the equality prelude:\n" + o)
        rc, o = vlib.sh(["go", "build", "-o", os.path.join(vlib.BUILD, "eqdrv"), "."], cwd=wd, env=vlib.GOENV, timeout=600)
        if rc != 0:
            ctx.fail_infra("go build of the equality prelude failed:\n" + o)
    return os.path.join(vlib.BUILD, "eqdrv")


def run(ctx):
    ctx.ensure_oracle()
    eqdrv = build_eqdrv(ctx)
    ctx.assumptions += ASSUMPTIONS
    ctx.lake_build(["Folang.Props.C10"])
    ctx.audit(THEOREMS, ["Folang.Props.C10"])
    if ctx.tier == "thorough":
        ctx.leanchecker(["Folang.Props.C10"])
    n = 400 if ctx.tier == "quick" else 20000
    cmds = [[eqdrv, str(ctx.seed * 100 + k), str(n // 4)] for k in range(4)]
    ctx.stream_parallel("eq.pair", cmds)
    for name, st in ctx.streams.items():
        for (i, e, o) in st.get("_mism", [])[:3]:
            # the model's answer is proved to be structural equality of the represented values
            ctx.direct.append({"kind": "= / <> differs from structural equality", "input": i, "structural": e, "implementation": o, "stream": name})
    ctx.finish(rule="12 Folang types (ints, strings, records with lower-case fields, nested records, unions with/without payload, generic record and union, tuples, slices of each, slices of slices) emitted by the real fc; seeded pairs: equal-by-construction through different library paths (literal, append, slice.New+PushLast, Filter, Take, Skip: nil vs empty at any depth) and independent draws over small domains; result/panic of the emitted = and <> vs the model; distinct = distinct value pairs")


def replay(ctx, path):
    data = json.load(open(path))
    ctx.ensure_oracle()
    v = data.get("violation") or {}
    print("recorded:", json.dumps(v or data)[:1500])
    inp = v.get("input")
    if inp:
        print("model   :", ctx.oracle([inp])[0])
    elif "a" in v:
        print("model   :", ctx.oracle(["(eq.pair %s %s)" % (v["a"], v["b"])])[0])
    print("re-run `./check C10 quick` to see whether the current tree still fails")
    return 1
