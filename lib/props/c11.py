import json, os, shutil, vlib

THEOREMS = ["Folang.Props.C11." + t for t in """scanStr_body scanRaw_body C11_plain C11_raw raw_denotes_itself interp_tail
C11_interp C11_interp_raw unfixed_percent unfixed_brace_escape""".split()] + [
    "Folang.Literal." + t for t in "L1dq L1raw L2dq L2raw L3dq L3raw L3plain_dq L3plain_raw L4".split()]

ASSUMPTIONS = [
    "model: scanStringLiteralToken, scanRawStringLiteralToken, the `$` dispatch, ParseSInterP (byte level, incl. their panics), the emitters `\"%s\"` / sinterpToGo",
    "assumed Go semantics (differentially tested against strconv.Unquote and fmt.Sprintf in the c11.unquote / c11.sprintf streams): value of an interpreted string literal for the escapes \\n \\t \\\\ \\\"; fmt.Sprintf restricted to %s and %% over string arguments (frt.SInterP renders every argument to a string first: C14 toS)",
    "well-formedness of a body: in \"...\" every backslash is followed by n t \\ \" (plus { } in $\"...\"), no backtick in raw bodies, holes are identifiers; bodies are arbitrary byte lists otherwise (UTF-8 validity, which the Go compiler requires of its source, is assumed, not modelled)",
    "display form of holes is the env parameter of the theorems; the end-to-end stream checks it for int, string, bool; float-typed holes are the known finding D11",
]


def workdir():
    wd = os.path.join(vlib.BUILD, "c11.work")
    shutil.rmtree(wd, ignore_errors=True)
    os.makedirs(wd)
    open(os.path.join(wd, "go.mod"), "w").write(
        "module litprog\n\ngo 1.23\n\nrequire github.com/karino2/folang/pkg/frt v0.0.0\n\n"
        "require github.com/google/go-cmp v0.6.0 // indirect\n\n"
        "replace github.com/karino2/folang/pkg/frt => %s/pkg/frt\n" % vlib.REPO)
    shutil.copy(os.path.join(vlib.REPO, "pkg", "frt", "go.sum"), wd)
    return wd


def run(ctx):
    ctx.ensure_oracle()
    fcdrv = ctx.build_fcdrv()
    libdrv = ctx.build_go("libdrv")
    ctx.assumptions += ASSUMPTIONS
    ctx.lake_build(["Folang.Props.C11"])
    ctx.audit(THEOREMS, ["Folang.Props.C11"])
    if ctx.tier == "thorough":
        ctx.leanchecker(["Folang.Props.C11"])
    wd = workdir()
    rounds = 1 if ctx.tier == "quick" else 12
    for k in range(rounds):
        n = 800 if ctx.tier == "quick" else 1600
        env = dict(os.environ, **{k2: v for k2, v in vlib.GOENV.items() if k2.startswith("GO")})
        env.update(FC_VERIF="c11", FC_VERIF_ARGS="%d %d %s" % (ctx.seed * 50 + k, n, wd), GOMAXPROCS="1")
        ctx.stream("c11/%d" % k, [fcdrv], env=env, timeout=1800, max_samples=2)
    # for the end-to-end lines the oracle's answer is the specification (denote): mismatch = failing input
    for name, st in ctx.streams.items():
        for (i, e, o) in [m for m in st.get("_mism", []) if m[0].startswith("(c11.lit")][:3]:
            if True:
                ctx.direct.append({"kind": "printed text differs from the denoted text", "input": i, "denoted": e, "printed": o, "stream": name})
    # known finding D11: float-typed hole renders with %f, the statement says %v
    rc, o = vlib.sh([libdrv, "lib.floathole", "0", "0"], timeout=60)
    for k in ctx.known_findings():
        if k.get("id") == "D11" and k.get("status") == "known":
            if "R 1.500000" in o:
                ctx.known_line(k["what"])
            else:
                ctx.notes.append("known finding D11 no longer reproduces: " + o.strip())
    shutil.rmtree(wd, ignore_errors=True)
    ctx.finish(rule="scanners: every byte value alone and after a backslash in each of the 4 literal forms (2048 sources) + random bodies incl. unterminated/truncated; ParseSInterP on random token texts incl. lone braces/backslashes; assumed Go semantics vs strconv.Unquote / fmt.Sprintf; end to end: a generated program printing literals of all 4 forms (every printable ASCII character by rotating quarters per seed, newline, tab, multi-byte UTF-8, %, braces, escapes, holes of int/string/bool type) transpiled by the real pipeline, compiled and run, stdout vs the denoted text; distinct = distinct inputs")


def replay(ctx, path):
    data = json.load(open(path))
    ctx.ensure_oracle()
    v = data.get("violation") or {}
    print("recorded:", json.dumps(v or data)[:3000])
    inp = v.get("input")
    if inp:
        print("specification:", ctx.oracle([inp])[0])
    print("re-run `./check C11 quick` to see whether the current tree still fails")
    return 1
