import vlib
from props import slicecommon as sc


def run(ctx):
    libdrv = sc.prepare(ctx)
    ctx.assumptions += sc.ASSUMPTIONS
    ctx.lake_build(["Folang.Props.C12", "Folang.Props.C12Facts"])
    ctx.audit(sc.C12_THEOREMS, ["Folang.Props.C12", "Folang.Props.C12Facts"])
    if ctx.tier == "thorough":
        ctx.leanchecker(["Folang.Props.C12", "Folang.Props.C12Facts"])
    sc.corpus_stream(ctx, libdrv, "C12")
    total, nops = (3000, 12) if ctx.tier == "quick" else (100000, 30)
    ctx.stream_parallel("slice.hist", sc.hist_cmds(libdrv, ctx.seed, total, nops, par=8 if ctx.tier == "quick" else 16))
    ctx.stream("slice.exh", [libdrv, "slice.exh", "0", "3" if ctx.tier == "quick" else "5"])
    if ctx.broken and not ctx.direct:
        # a proof obligation or the correspondence broke: search the implementation for a history on
        # which a slice value really changes (longer histories, more seeds)
        ctx.notes.append("widened search: 16 x 4000 histories x 25 ops")
        cmds = [[libdrv, "slice.hist", str(ctx.seed * 7919 + 100 + k), "4000", "25"] for k in range(16)]
        from concurrent.futures import ThreadPoolExecutor
        with ThreadPoolExecutor(16) as ex:
            for r in ex.map(lambda c: ctx.run_harness(c), cmds):
                if r:
                    ctx.evaluations += len(r[0])
                    for v in r[2]:
                        v["stream"] = "search/slice.hist"
                        ctx.direct.append(v)
    # keep the smallest witness first
    ctx.direct.sort(key=lambda v: len(v.get("history", "")))
    ctx.finish(rule="random straight-line histories of slice-package calls over a growing pool (seeded; bias to re-use a source twice and to extend shortened values) + exhaustive small slices x every function x every parameter; after every call the contents of ALL pool values are compared with their contents at creation (direct check) and with the model (contents, return value/panic, aliasing signature); distinct = distinct history lines")


def replay(ctx, path):
    import json
    data = json.load(open(path))
    libdrv = sc.prepare(ctx)
    hist = None
    v = data.get("violation") or {}
    hist = v.get("history")
    if not hist:
        for m in data.get("mismatches", []):
            hist = m.get("input")
            break
    if not hist:
        print("replay file names no input:", data.get("no_longer_checks"))
        return 1
    r = ctx.run_harness([libdrv, "slice.replay", "0", "0", hist])
    ins, outs, vio, _ = r
    exp = ctx.oracle(ins)
    print("input :", hist)
    print("impl  :", outs[0])
    print("oracle:", exp[0])
    for x in vio:
        print("VIOLATION-DETAIL:", json.dumps(x))
    bad = bool(vio) or exp != outs
    print("replay:", "FAILS" if bad else "passes")
    return 1 if bad else 0
