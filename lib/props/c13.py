import vlib
from props import slicecommon as sc
from props import c12


def run(ctx):
    libdrv = sc.prepare(ctx)
    ctx.assumptions += sc.ASSUMPTIONS
    ctx.lake_build(["Folang.Props.C13", "Folang.Props.C12Facts"])
    ctx.audit(sc.C13_THEOREMS, ["Folang.Props.C13", "Folang.Props.C12Facts"])
    if ctx.tier == "thorough":
        ctx.leanchecker(["Folang.Props.C13"])
    sc.corpus_stream(ctx, libdrv, "C13")
    ctx.stream("slice.exh", [libdrv, "slice.exh", "0", "4" if ctx.tier == "quick" else "6"])
    total, nops = (1600, 10) if ctx.tier == "quick" else (40000, 20)
    ctx.stream_parallel("slice.hist", sc.hist_cmds(libdrv, ctx.seed + 17, total, nops, par=8))
    # For C13 the oracle's answer IS the list specification (theorems *_spec): a mismatch on a
    # return value is a failing input of the property itself.
    for name, s in ctx.streams.items():
        for (i, e, o) in s.get("_mism", [])[:3]:
            ctx.direct.append({"kind": "result-differs-from-specification", "history": i, "specification": e[:3000], "implementation": o[:3000], "stream": name})
    ctx.direct = [v for v in ctx.direct if v.get("kind") != "slice-value-changed"] or ctx.direct
    ctx.finish(rule="every exported function x ints and strings x every list of length 0..N over a 3-letter alphabet (plus a negative/large alphabet) x every index/count in -1..len+1 x every named callback of the family, then random histories; return value / panic kind / contents compared with the model whose results are proved equal to the List specification; distinct = distinct history lines")


replay = c12.replay
