import json, vlib

THEOREMS = ["Folang.Props.C14." + t for t in """add_refines new_refines add_wf reachable_wf containsKey_refines
tryFind_refines item_refines get?_eq_some_iff kvs_enumerates keys_nodup keys_enumerates values_perm kvs_length
toDict_last goIndex_some concat_split concat_splitN concat_split_empty splitN2 hasPrefix_iff hasSuffix_iff
trimSuffix_append trimSuffix_no_suffix encloseWith_spec appendHead_spec appendTail_spec length_spec isEmpty_spec
isNotEmpty_spec concat_spec buf_accumulates pipe_spec ifElse_true ifElse_false ifElseUnit_true ifElseUnit_false
ifOnly_true ifOnly_false fst_new snd_new new_fst_snd destr2_new destr3_new new_destr3 toS_unfixed_panics
toS_total toS_classes fact_dictFuncs fact_stringsFuncs fact_bufFuncs""".split()]

ASSUMPTIONS = [
    "model: a Go map is an association list without duplicate keys; enumeration order is an arbitrary permutation",
    "model: Go's strings.Split/SplitN/Index/HasPrefix/HasSuffix/TrimSuffix transcribed from the standard library over byte lists; explode (empty separator) only for single-byte characters",
    "model: bytes.Buffer = bytes written so far; reflect.Value.Int/Uint/Float panic outside their kind class, String and %v never panic",
    "float formatting is not compared (only absence of panics)",
    "tie: regenerated function inventories and toS kind-switch arms (go/ast); lib.dict/lib.str/lib.buf/lib.tos streams against the real packages",
]


def run(ctx):
    ctx.build_go("extract")
    ctx.regenerate("lib", "LibFacts.lean")
    ctx.ensure_oracle()
    libdrv = ctx.build_go("libdrv")
    ctx.assumptions += ASSUMPTIONS
    ctx.lake_build(["Folang.Props.C14", "Folang.Props.C14Facts"])
    ctx.audit(THEOREMS, ["Folang.Props.C14", "Folang.Props.C14Facts"])
    if ctx.tier == "thorough":
        ctx.leanchecker(["Folang.Props.C14", "Folang.Props.C14Facts"])
    q = ctx.tier == "quick"
    s = str(ctx.seed)
    ctx.stream("lib.dict", [libdrv, "lib.dict", s, "400" if q else "20000"])
    ctx.stream("lib.str", [libdrv, "lib.str", s, "4" if q else "6", "500" if q else "20000"])
    ctx.stream("lib.buf", [libdrv, "lib.buf", s, "300" if q else "10000"])
    ctx.stream("lib.tos", [libdrv, "lib.frt", s, "60" if q else "3000"])
    # the oracle's answers are proved equal to the specification: a mismatch on a return value is a
    # failing input of the property
    for name, st in ctx.streams.items():
        for (i, e, o) in st.get("_mism", [])[:3]:
            ctx.direct.append({"kind": "result-differs-from-specification", "input": i, "specification": e[:2000], "implementation": o[:2000], "stream": name})
    ctx.finish(rule="dict: random op sequences (Add/ContainsKey/TryFind/Item/Keys/Values/KVs/ToDict/New) with enumerations sorted; strings: every function on every string up to length N over {a,b,','} x 7 separators (empty, repeated, overlapping) x counts -1..4, plus random strings incl. multi-byte; buf: random write sequences; frt: SInterP/Sprintf1 on values of every basic kind, thunk discipline and tuple laws checked directly")


def replay(ctx, path):
    data = json.load(open(path))
    ctx.ensure_oracle()
    v = data.get("violation") or {}
    inp = v.get("input")
    if not inp:
        for m in data.get("mismatches", []):
            inp = m.get("input")
            break
    print("recorded:", json.dumps(v or data)[:1500])
    if inp:
        print("oracle  :", ctx.oracle([inp])[0])
    print("re-run `./check C14 quick` to see whether the current tree still fails")
    return 1
