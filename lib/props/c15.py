import json, vlib

THEOREMS = ["Folang.Props.C15." + t for t in """toGo_int toGo_string toGo_bool toGo_any toGo_float toGo_unit toGo_slice
toGo_tuple2 toGo_tuple3 toGo_func1 toGo_func2 toGo_func_unit_result toGo_func_unit_arg toGo_func_nested toGo_named0
toGo_named1 toGo_named2 roundtrip roundtrip_whole goType_of_rendering denote_arrows_flat denote_paren""".split()]

ASSUMPTIONS = [
    "model: parseType > parseTypeArrows > parseElemType > parseTermType > parseAtomType with mightParseSpecifiedTypeList / parseTypeList / parseFullName over tokens and an environment of registered type names; FTypeToGo with funcTypeToGo, fTupleToGo, fSliceToGo, tArgsToGo, fpToGo",
    "roundtrip (Props/C15.lean): for every concrete syntax tree of the grammar (a tree per level TYPE > ELEM > TERM > ATOM, so with the parentheses the levels require and any redundant ones, any depth, any number of arrows / stars / type arguments, dotted names) whose names resolve, the parser model returns exactly the FType the tree denotes on its rendering followed by any token that cannot continue a type, for every sufficient fuel; goType_of_rendering composes it with the documented Go rendering toGo. The converse (the parser accepts nothing but renderings) is not stated",
    "tie: c15.type stream: type-expression text -> real parseType + FTypeToGo in-process vs the model; the same expressions in the five positions (parameter annotation, record field, union payload, package_info signature, explicit type argument) through the whole pipeline, Go type text cut from the emitted file; a malformed stream (token dropped/duplicated)",
    "forward references inside `type ... and` groups and field-access types are outside the statement",
]


def run(ctx):
    ctx.ensure_oracle()
    fcdrv = ctx.build_fcdrv()
    ctx.assumptions += ASSUMPTIONS
    ctx.lake_build(["Folang.Props.C15"])
    ctx.audit(THEOREMS, ["Folang.Props.C15"])
    if ctx.tier == "thorough":
        ctx.leanchecker(["Folang.Props.C15"])
    args = "%d 3000 1 150" % ctx.seed if ctx.tier == "quick" else "%d 40000 2 4000" % ctx.seed
    ctx.stream_parallel("c15.type", [["env", "FC_VERIF=c15", "FC_VERIF_ARGS=" + args, fcdrv]], par=1)
    if ctx.tier == "thorough":
        for k in range(1, 4):
            ctx.stream_parallel("c15.type/%d" % k, [["env", "FC_VERIF=c15", "FC_VERIF_ARGS=%d 0 2 0" % (ctx.seed + k), fcdrv]], par=1)
    ctx.finish(rule="all type expressions of depth <= 1 (quick) / <= 2 (thorough) over base types, (), slices, 2/3-tuples, functions with unit argument/result, generic external and user types, minimal parentheses, exhaustively; random expressions of depth <= 3 with redundant parentheses; the five syntactic positions through the whole compiler; malformed token streams; each compared with the model and with the documented mapping written in the harness; distinct = distinct token sequences")


def replay(ctx, path):
    data = json.load(open(path))
    v = data.get("violation") or {}
    print("recorded:", json.dumps(v or data)[:2000])
    print("re-run `./check C15 quick` to see whether the current tree still fails")
    return 1
