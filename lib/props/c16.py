import glob, hashlib, json, os, random, re, resource, shutil, subprocess, tempfile, vlib
from concurrent.futures import ThreadPoolExecutor

THEOREMS = ["Folang.Props.C16." + t for t in "driver_exit0_complete driver_failure_discipline scan_progress nextNonSpace_none_is_panic nextNonSpace_bounds newTkz_inside tkzNext_advances resolve_terminates resolveIn_fuel transTV_fuel resolve_unfixed_diverges".split()] + \
    ["Folang.Props.C16Block." + t for t in "block_terminates list_terminates stmt_progress all_ok".split()]

ASSUMPTIONS = [
    "offside block parser model (Model/Offside.lean, tied to the real tokenizer + parser by C06's c06.block stream): block_terminates / list_terminates - with fuel 3*tokens+3 the recursion parseBlock -> parseStmtList -> parseStmt -> parseBlock never runs out of fuel on ANY token sequence; stmt_progress - every statement consumes at least one token. The expression parser inside a statement and the other list loops of the real parser are not in this model",
    "model: main/transpileFiles/transpileOne/OnParseError with the per-file translation and file I/O abstract (readable / translates / writable per argument); the tokenizer (scanTokenAt and all scanners, nextToken, newTkz, tkzNext) at byte level",
    "partial: termination of the parser, of constraint collection / the resolver update loop and of emission is NOT modelled; the resolution of type variables IS: resolve_terminates (Props/C16Resolve.lean) proves for every resolver, cyclic or not, and every type that resolveType with the visiting list of fix 1e8a7fd ends with a type or the recursive-type diagnostic within (number of bound names + 1) nested calls, resolve_unfixed_diverges is the witness for the code before the fix, and the model is tied to the real resolveType on random hand-built resolvers (stream c16.resolve). The rest: it is tied by running the real binary under a timeout and a memory limit on mutants; the tokenizer IS proved to make progress: scan_progress (every token of every scanner consumes >= 1 byte and stays inside the buffer, all byte strings), nextNonSpace_none_is_panic (the token loop never runs out of fuel: it fails only where a scanner panics), tkzNext_advances (positions strictly increase until EOF)",
    "cannot be exhibited by any model: Go stack exhaustion on deeply nested but finite input, out-of-memory, OS-level hangs",
    "checks run as root: permission bits cannot induce a write fault; a directory in place of gen_X.go (open fails) and a symlink to /dev/full (open succeeds, write fails) are used instead",
]

TIMEOUT = 30


def limit():
    resource.setrlimit(resource.RLIMIT_AS, (6 << 30, 6 << 30))


def run_fc(fc, args, cwd):
    try:
        p = subprocess.run([fc] + args, cwd=cwd, stdout=subprocess.PIPE, stderr=subprocess.PIPE, timeout=TIMEOUT,
                           preexec_fn=limit, env=dict(os.environ, GOMAXPROCS="1"))
        return p.returncode, p.stdout.decode(errors="replace"), p.stderr.decode(errors="replace")
    except subprocess.TimeoutExpired:
        return "timeout", "", ""


MUTUAL = [
    "type MA = {Name: string; Bs: []MB}\nand MB = {Id: int; As: []MA}\n\nlet getBs (a:MA) =\n  a.Bs\n",
    "type MA = {Name: string; Bs: []MB}\nand MB = {Id: int; As: []MA}\n\nlet firstId (a:MA) (b:MB) =\n  let xs = a.Bs\n  let ys = b.As\n  (xs, ys, b.Id)\n",
    "type PA = {P1: int*PB}\nand PB = {P2: []PC}\nand PC = {P3: string->PA}\n\nlet p3 (c:PC) =\n  c.P3\n\nlet p1 (a:PA) =\n  a.P1\n",
    "type Node = {Kids: []Node; Up: Edge}\nand Edge = {To: Node; W: int}\n\nlet kids (n:Node) =\n  n.Kids\n\nlet mk (e:Edge) =\n  [e.To]\n",
]


def cyclic_def(r):
    """a definition whose parameters are unified with types that contain them (no finite type): the
    same variable at several depths of slices / pairs, possibly through a second parameter"""
    def wrap(e, d):
        for _ in range(d):
            e = "[%s]" % e if r.random() < 0.7 else "(%s, 1)" % e
        return e
    names = ["x", "y"][:1 if r.random() < 0.7 else 2]
    depths = r.sample(range(1, 5), r.randint(1, 3)) + ([0] if r.random() < 0.8 else [])
    r.shuffle(depths)
    items = [wrap(r.choice(names), d) for d in depths]
    if len(items) < 2:
        items.append(wrap(names[0], 2))
    body = "[" + "; ".join(items) + "]"
    if r.random() < 0.3:
        body = "let m = %s\n  [m; [m]]" % body
    return "let cyc%d %s =\n  %s\n" % (r.randint(0, 999), " ".join(names), body)


def mutants(r, corpus, n):
    frag = [" ", "\n", "  ", "\t", "(", ")", "{", "}", "[", "]", "|", "->", "=", "let", "match", "with", "if", "then", "else", "fun", "type",
            "of", "\"", "`", "$\"", "/*", "*/", "//", "_", "<", ">", ",", ";", ".", "|>", "+", "0", "x", "package_info", "and", "\\", "{x}", "é",
            "\r", "\r\n", " \r", "\x0c", "\x0b", "\x00", "\x7f", "\xc2\xa0", "#", "@", "~"]
    out = []
    for _ in range(n):
        src = r.choice(corpus)
        k = r.random()
        if k < 0.04:                      # the whole file saved with DOS line ends / a stray CR after a line
            if r.random() < 0.5:
                m = src.replace("\n", "\r\n")
            else:
                lines = src.split("\n")
                i = r.randrange(len(lines))
                lines[i] = lines[i] + "\r"
                m = "\n".join(lines)
        elif k < 0.25:                    # truncation
            m = src[:r.randint(0, len(src))]
        elif k < 0.45:                    # delete / duplicate / swap a token
            toks = re.findall(r"\s+|\w+|[^\w\s]", src)
            if len(toks) < 3:
                continue
            i = r.randrange(len(toks) - 1)
            op = r.random()
            if op < 0.34:
                del toks[i]
            elif op < 0.67:
                toks.insert(i, toks[i])
            else:
                toks[i], toks[i + 1] = toks[i + 1], toks[i]
            m = "".join(toks)
        elif k < 0.6:                     # indentation damage
            lines = src.split("\n")
            i = r.randrange(len(lines))
            lines[i] = " " * r.randint(0, 6) + lines[i].lstrip(" ") if r.random() < 0.7 else "\t" + lines[i]
            m = "\n".join(lines)
        elif k < 0.8:                     # insert a fragment
            i = r.randint(0, len(src))
            m = src[:i] + r.choice(frag) + src[i:]
        elif k < 0.9:                     # unterminated comment / string at the end, comment at EOF without newline
            m = src + r.choice(["/* never closed", "\"never closed", "`never closed", "// last line comment", "$\"{open", "\\", "$"])
            if r.random() < 0.5:          # the file ends inside / right after a token, no final newline
                m = src.rstrip() + "\n\nlet zz%d = " % r.randint(0, 99) + r.choice(["12", "7", "x1", "\"s\"", "1.5", "(", "()", "a.b", "-3", "f 1", "[1; 2", "{X=1", "$\"a{b}\"", "'c'", "1 +", "not", "fun x ->", "_"])
        else:                             # self-referential / ill-typed definitions
            m = src + "\n" + r.choice([
                "let selfapp x =\n  x x\n", "let omega f =\n  f f f\n", "let loop x =\n  loop x\n",
                "let bad (a:int) =\n  a + \"s\"\n", "let y f =\n  (fun x -> f (x x)) (fun x -> f (x x))\n",
                "let cyc x =\n  [x; [x]]\n", "let t x =\n  (x, x x)\n", "type R = {r: R}\n",
                # records that contain each other (cycles of length 2 and 3, through slices / tuples / functions), used
                MUTUAL[0], MUTUAL[1], MUTUAL[2], MUTUAL[3], "let deep () =\n  " + "(" * 200 + "1" + ")" * 200 + "\n",
                cyclic_def(r), cyclic_def(r), cyclic_def(r)])
        out.append(m)
    # a fixed share of cyclic definitions (found D22: the relations of the resolver never settled)
    for _ in range(max(30, n // 60)):
        out.append(r.choice(corpus)[:r.choice([0, 400, 2000])].rsplit("\nlet ", 1)[0] + "\n\n" + cyclic_def(r))
    # … and of record types that contain each other, alone in a file: always part of a run
    for d in MUTUAL:
        out.append("package main\n\n" + d)
    return out


def classify(rc, out, err):
    if rc == "timeout":
        return "hang"
    if "fatal error:" in err or "runtime: " in err:
        return "fatal"
    if rc == 0:
        return "ok"
    return "diag"


def run(ctx):
    ctx.ensure_oracle()
    fcdrv = ctx.build_fcdrv()
    fc = ctx.build_go("fc", srcdir=os.path.join(vlib.REPO, "fc"), out=os.path.join(vlib.BUILD, "fc"))
    ctx.assumptions += ASSUMPTIONS
    ctx.partial += ["parser / constraint collection / emission termination: tied by mutants under timeout, not proved"]
    ctx.lake_build(["Folang.Props.C16", "Folang.Props.C16Resolve", "Folang.Props.C16Block"])
    ctx.audit(THEOREMS, ["Folang.Props.C16", "Folang.Props.C16Resolve", "Folang.Props.C16Block"])
    if ctx.tier == "thorough":
        ctx.leanchecker(["Folang.Props.C16", "Folang.Props.C16Resolve", "Folang.Props.C16Block"])
    # 1. tokenizer streams (scanner totality: every input ends in EOF or a panic, never out of fuel)
    n = 1500 if ctx.tier == "quick" else 40000
    env = dict(os.environ, FC_VERIF="tok", FC_VERIF_ARGS="%d %d" % (ctx.seed, n), FC_VERIF_REPO=vlib.REPO)
    mism = ctx.stream("tok", [fcdrv], env=env, timeout=900 if ctx.tier == "quick" else 3000)
    # 1b. type resolution (resolveType / resolveOneTypeVarIn with the visiting list) on hand-built
    # resolvers, cyclic ones included, vs the model that is proved to terminate
    ctx.stream("c16.resolve", [fcdrv], env=dict(os.environ, FC_VERIF="resolve", GOMAXPROCS="1",
               FC_VERIF_ARGS="%d %d" % (ctx.seed + 11, 3000 if ctx.tier == "quick" else 60000), FC_VERIF_REPO=vlib.REPO), timeout=3000)
    # 2. the real binary on mutants
    r = random.Random(ctx.seed)
    foi = os.path.join(vlib.REPO, "pkg", "pkg_all.foi")
    corpus = [open(p).read() for p in sorted(glob.glob(os.path.join(vlib.REPO, "samples", "*.fo")))]
    corpus += [open(p).read() for p in sorted(glob.glob(os.path.join(vlib.REPO, "cmd", "build_sample_md", "*.fo")))]
    corpus += [open(os.path.join(vlib.REPO, "fc", f)).read()[:r.randint(800, 4000)] for f in ("tokenizer.fo", "main.fo", "ftype.fo")]
    ms = mutants(r, corpus, 400 if ctx.tier == "quick" else 20000)
    wd = tempfile.mkdtemp(prefix="c16.", dir=vlib.BUILD)
    stats = {}

    def one(kv):
        k, m = kv
        d = os.path.join(wd, "m%d" % k)
        os.makedirs(d)
        open(os.path.join(d, "m.fo"), "w").write(m)
        rc, out, err = run_fc(fc, [foi, "m.fo"], d)
        gen = os.path.join(d, "gen_m.go")
        cls = classify(rc, out, err)
        bad = None
        if cls in ("hang", "fatal"):
            bad = cls
        elif cls == "ok":
            if not os.path.exists(gen) or not open(gen).read().endswith("\n"):
                bad = "exit 0 without a complete gen file"
        else:
            if os.path.exists(gen):
                bad = "non-zero exit but a gen file was written"
            elif "m.fo: " not in out and "panic: " not in err:
                bad = "non-zero exit without a diagnostic naming the file"
        shutil.rmtree(d, ignore_errors=True)
        return cls, bad, m, (rc, out[-300:], err[-300:])

    with ThreadPoolExecutor(4) as ex:
        for cls, bad, m, obs in ex.map(one, enumerate(ms)):
            stats[cls] = stats.get(cls, 0) + 1
            ctx.evaluations += 1
            ctx.distinct.add(hashlib.sha1(m.encode()).digest()[:10])
            if bad:
                ctx.direct.append({"kind": bad, "program": m, "observed": obs})
    for k, v in stats.items():
        ctx.stats["mutants:" + k] = v
    ctx.samples.append({"stream": "mutants", "input": ms[0][:400], "impl": "classes: %s" % stats})
    # 3. driver discipline on argument lists whose outcomes are known by construction
    good = "package main\n\nlet f () =\n  1\n"
    badsrc = "package main\n\nlet f () =\n  (1\n"
    ins, outs = [], []
    for _ in range(40 if ctx.tier == "quick" else 600):
        d = tempfile.mkdtemp(prefix="drv.", dir=wd)
        args, desc, stale = [], [], []
        for i in range(r.randint(0, 5)):
            kind = r.choice(["good", "good", "stale", "bad", "missing", "unwritable", "devfull", "foi", "badfoi"])
            name = "f%d.%s" % (i, "foi" if kind in ("foi", "badfoi") else "fo")
            isfo = not name.endswith(".foi")
            if kind != "missing":
                open(os.path.join(d, name), "w").write(badsrc if kind in ("bad", "badfoi") else good.replace("f ()", "f%d ()" % i))
            if kind == "stale":
                # an older, LONGER gen file is in the way: it must be replaced, not written over
                open(os.path.join(d, "gen_f%d.go" % i), "w").write("// STALE-CONTENT of an earlier run\n" * 400)
                stale.append("gen_f%d.go" % i)
            if kind == "unwritable":
                os.makedirs(os.path.join(d, "gen_f%d.go" % i))
            if kind == "devfull":
                # the destination opens but every write fails (ENOSPC): a fault root can induce
                if os.path.exists("/dev/full"):
                    os.symlink("/dev/full", os.path.join(d, "gen_f%d.go" % i))
                else:
                    os.makedirs(os.path.join(d, "gen_f%d.go" % i))
            args.append(name)
            desc.append("(%s %s %s %s %s)" % (name, str(isfo).lower(), str(kind != "missing").lower(),
                                             str(kind not in ("bad", "badfoi")).lower(), str(kind not in ("unwritable", "devfull")).lower()))
        rc, out, err = run_fc(fc, args, d)
        def fresh(gname):
            # written by THIS run: exists, and (if an older file was in the way) no longer starts with it
            p = os.path.join(d, gname)
            return os.path.isfile(p) and not (gname in stale and open(p).read().startswith("// STALE-CONTENT"))
        written = [a for a in args if a.endswith(".fo") and fresh("gen_" + a[:-3] + ".go")]
        for gname in stale:
            p = os.path.join(d, gname)
            if fresh(gname) and "STALE-CONTENT" in open(p).read():
                ctx.direct.append({"kind": "a gen file written by this run still holds bytes of an older, longer file (the destination is not truncated)", "file": gname, "args": args})
        diag = "-"
        if rc != 0:
            mm = re.findall(r"^(f\d+\.foi?): ", out, re.M) or re.findall(r"Can't open file: (f\d+\.foi?)", err + out)
            diag = mm[0] if mm else "?"
        ins.append("(c16.driver %s)" % " ".join(desc))
        outs.append("(%s (%s) %s)" % ("exit0" if rc == 0 else "exit-nonzero", " ".join(written), diag))
        shutil.rmtree(d, ignore_errors=True)
    exp = ctx.oracle(ins)
    dm = [(i, e, o) for i, e, o in zip(ins, exp or [], outs) if e != o]
    ok = exp is not None and not dm
    ctx.streams["c16.driver"] = {"cases": len(ins), "mismatches": len(dm)}
    ctx.evaluations += len(ins)
    ctx.obligations.append(("corr:c16.driver", ok, "" if ok else "first mismatch %s" % (dm[0],) if dm else "oracle failed"))
    ctx.samples.append({"stream": "c16.driver", "input": ins[1], "impl": outs[1]})
    if not ok:
        ctx.broken.append("corr:c16.driver")
        for (i, e, o) in dm[:2]:
            # the model's prediction is proved to satisfy the statement; a differing real run that exits 0
            # without a file or fails without diagnostic is a failing input
            ctx.direct.append({"kind": "driver behaviour differs from exit-0-iff-complete discipline", "args": i, "predicted": e, "observed": o})
    shutil.rmtree(wd, ignore_errors=True)
    ctx.finish(rule="tokenizer: every byte value x 12 continuations, random fragment strings, corpus files, truncated/damaged corpus files through the real scanners vs the model; real binary (timeout %ds, 6 GB address-space limit) on mutants of the samples and compiler sources: truncation at random offsets, token deletion/duplication/swap, indentation damage, inserted fragments, unterminated comments/strings, comment at EOF, self-referential, cyclic (a variable unified with types containing it at several depths), mutually recursive record types and ill-typed definitions, deep nesting, DOS line ends / stray CR and other control bytes; argument lists mixing good/bad/missing/unwritable (open fails)/full device (write fails)/.foi files vs the driver model; distinct = distinct mutants" % TIMEOUT)


def replay(ctx, path):
    data = json.load(open(path))
    v = data.get("violation") or {}
    print("recorded:", json.dumps(v or data)[:3000])
    prog = v.get("program")
    if prog is not None:
        fc = ctx.build_go("fc", srcdir=os.path.join(vlib.REPO, "fc"), out=os.path.join(vlib.BUILD, "fc"))
        d = tempfile.mkdtemp(prefix="c16r.", dir=vlib.BUILD)
        open(os.path.join(d, "m.fo"), "w").write(prog)
        print("current tree:", run_fc(fc, [os.path.join(vlib.REPO, "pkg", "pkg_all.foi"), "m.fo"], d))
        shutil.rmtree(d, ignore_errors=True)
    return 1
