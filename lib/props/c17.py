import json, os, shutil, vlib
from props import gocommon

THEOREMS = ["Folang.Sem.lower_correct", "Folang.Sem.lower_correct_output", "Folang.Sem.runProg_deterministic", "Folang.Sem.grunProg_deterministic", "Folang.Sem.evalN_mono", "Folang.Sem.wfProgB_iff", "Folang.Sem.sim", "Folang.Sem.gevalN_mono", "Folang.Sem.exampleProg_lowered",
            "Folang.Props.C17.tiny_is_climb", "Folang.Props.C17.tiny_eq_group", "Folang.Props.C17.group_congr",
            "Folang.Props.C17.tables_agree", "Folang.Props.C17.tiny_agrees_with_fc", "Folang.Props.C17.tiny_table_is_prefix",
            "Folang.Props.C17.fact_tinyTable", "Folang.Props.C17.fact_tinyPrecedenceUses", "Folang.Props.C17.fact_tinyMinPrec",
            "Folang.Props.C01.papp_agrees_when_pure", "Folang.Props.C14.ifElse_true", "Folang.Props.C14.ifElse_false",
            "Folang.Props.C14.ifOnly_false", "Folang.Props.C14.pipe_spec"]

ASSUMPTIONS = [
    "PARTIAL. Proved (Props/Sim.lean): lower_correct — the lowering scheme (if -> frt.IfElse thunks, if-only -> frt.IfOnly, partial application -> closure, pipe -> frt.Pipe, match -> type switch / immediately invoked func literal, let -> :=) preserves the output of every well-formed core program, for the reference semantics the oracle runs; tinyfo's emitter is tied to that lowering model on every run by reading the Go it really emits back with go/parser (stream sem.lower: must EQUAL lowerB of the abstract function, types erased). The behavioural statement for the real tinyfo (its parser, its type printing) is not proved end to end. Also proved for all inputs: tinyfo's operator loop is precedence climbing and groups every chain of the shared operators exactly as fc does (tiny_is_climb, tiny_eq_group, tiny_agrees_with_fc over tables_agree / group_congr); the runtime mechanisms tinyfo lowers to (frt.IfElse / IfOnly thunks, frt.Pipe) and the closure lowering of partial application are the C14 / C01 theorems",
    "tie: facts regenerated from tinyfo/parser.go on every run (binOpMap, the two uses of .precedence, minPrec = 1); the tinyfo binary is rebuilt from the working tree; programs of the tinyfo profile of the C01 generator go through the real tinyfo binary and through fc in-process, both outputs are compiled and run; tinyfo's stdout is compared with the Lean reference evaluator (stream c01.prog) and with fc's stdout",
    "the tinyfo profile (harness/fcdrv/tiny.go): annotated functions, int/string/bool expressions with + - comparisons && || not = <>, if/elif/else and if-only, non-generic records and unions with match (binders, _, default), slices (non-empty literals, parenthesised in argument position), pairs and destructuring, pipes, partial application (effect-free given arguments: tinyfo keeps them inside the closure, the behaviour that was defect D9 of fc; the lowering model in tinyfo mode, streams sem.progT / sem.lowerT), let-bound partial applications called later, package_info declarations of frt / slice / strings functions. A plain-layout program of this profile that tinyfo rejects is reported; under decorated layouts (thorough tier) rejections are counted only",
    "the reference semantics (Oracle/FSem.lean, executable Lean) is trusted as the meaning of the abstract programs; the generator renders them to text",
]


def run(ctx):
    ctx.ensure_oracle()
    fcdrv = ctx.build_fcdrv()
    tinyfo = ctx.build_go("tinyfo", srcdir=os.path.join(vlib.REPO, "tinyfo"))
    ctx.assumptions += ASSUMPTIONS
    ctx.partial.append("forward simulation proved for the lowering MODEL, which is tied to tinyfo's real output by read-back; tinyfo's parser and type printing are decided by execution (go build + stdout)")
    ctx.regenerate("tiny", "TinyFacts.lean")
    ctx.lake_build(["Folang.Props.C17", "Folang.Props.Sim"])
    ctx.audit(THEOREMS, ["Folang.Props.C17", "Folang.Props.C01", "Folang.Props.C14", "Folang.Props.Sim"])
    if ctx.tier == "thorough":
        ctx.leanchecker(["Folang.Props.C17", "Folang.Props.Sim"])
    wd = gocommon.workdir("c17.work")
    if ctx.tier == "quick":
        runs = ["%d 300 %s 60 %s" % (ctx.seed, wd, tinyfo)]
    else:
        runs = ["%d 2500 %s 60 %s" % (ctx.seed * 10 + k, wd, tinyfo) for k in range(4)] + \
               ["%d 1500 %s 60 %s layouts" % (ctx.seed * 10 + 7 + k, wd, tinyfo) for k in range(2)]
    for k, a in enumerate(runs):
        extra = {"FC_VERIF_CORPUS": os.path.join(vlib.VERIF, "corpus", "C17")} if k == 0 else None
        mism = ctx.stream("c17.prog/%d" % k, [fcdrv], env=gocommon.fc_env("c17", a, extra), timeout=3000, max_samples=1)
        # a differing read-back (sem.lower) is a broken correspondence, not yet a failing input: the
        # failing input, if there is one, is a program whose stdout differs (c01.prog / sem.prog)
        behav = [m for m in mism if not m[0].startswith("(sem.lower")]
        struct = [m for m in mism if m[0].startswith("(sem.lower")]
        for (i, e, o) in behav[:3]:
            ctx.direct.append({"kind": "stdout of tinyfo's translation differs from the reference semantics", "input": i[:6000], "reference": e, "observed": o})
        if struct:
            ctx.notes.append("sem.lower: the Go emitted for %d functions differs from the lowering model; first: model=%s emitted=%s" % (len(struct), struct[0][1][:1500], struct[0][2][:1500]))
    shutil.rmtree(wd, ignore_errors=True)
    ctx.finish(rule="type-directed random programs of the tinyfo profile (0-2 helper functions + an entry function each) in batches of 60: real tinyfo binary -> go build -> run, stdout vs the Lean reference semantics on the abstract program (c01.prog, sem.prog) and vs the stdout of fc's translation of the same text; Go-core read-back of every function tinyfo emitted vs the lowering model (sem.lower); a boundary corpus (corpus/C17: nested records and field chains) through the same path; feature distribution in coverage.distribution; distinct = distinct abstract programs")


def replay(ctx, path):
    data = json.load(open(path))
    v = data.get("violation") or {}
    print("recorded:", json.dumps(v or data)[:4000])
    if v.get("input"):
        ctx.ensure_oracle()
        print("reference:", ctx.oracle([v["input"]])[0])
    return 1
