import binascii, json, os, random, shutil, subprocess, tempfile, vlib

THEOREMS = ["Folang.Props.C18." + t for t in "cols_head_last convOne_spec mapConv_ok mapConv_fail readme_shape missing_fails".split()]

ASSUMPTIONS = [
    "model: convOne / processListFile over the C13/C14 models of strings.SplitN/Split/Concat/TrimSuffix/AppendHead, slice.Filter/Map/Head/Last, buf; the file system is a function name -> bytes (none = unreadable)",
    "filepath.Join/Dir/Base and path cleaning are not modelled (generated directories use plain file names); fmt.Sprintf with a single %s argument is modelled as verbatim insertion",
    "tie: c18.run stream: the tool rebuilt from cmd/build_sample_md/gen_build_sample_md.go is run on generated directories; README.md bytes and success/failure vs the model; the checked-in samples/filelist.txt is a corpus entry",
]


def hx(b):
    return "x" + binascii.hexlify(b).decode()


def gen_case(r):
    """a generated directory: (list file bytes, {name: content or None})"""
    n = r.randint(0, 12)
    files = {}
    lines = []
    words = ["Basic", "sample", "with spaces", "x", "%s", "[link](u)", "###", "a b  c", "é", "`code`"]
    for i in range(n):
        name = r.choice(["s%d.fo" % i, "noext%d" % i, "dir_%d.fo" % i, "a.b%d.fo" % i, "t%d.fo.fo" % i])
        k = r.random()
        if k < 0.25:
            line = name
        else:
            line = name + " " + " ".join(r.choice(words) for _ in range(r.randint(1, 4)))
        content = r.choice([b"", b"package main\n", b"let f () =\n  1\n", b"```\nfence inside\n```", b"no trailing newline",
                            b"percent %d %s\n", b"\n\nblank lines\n\n", "unicode éあ\n".encode(), bytes(range(1, 40)),
                            b"dos line\r\nendings\r\n", b"lone\rCR and \r\n mixed\n", b"\xff\xfe invalid utf8 \x00\n", b"tab\tand trailing space \n"])
        if r.random() < 0.5:
            content += ("line %d\n" % r.randint(0, 99)).encode() * r.randint(0, 3)
        files[name] = content
        lines.append(line)
        if r.random() < 0.2:
            lines.append("")          # blank line in the list
    missing = None
    if n > 0 and r.random() < 0.2:
        missing = r.choice(list(files))
        # unreadable: the file does not exist, or the name is a directory (exists, cannot be read as a file)
        files[missing] = None if r.random() < 0.5 else ISDIR
    text = "\n".join(lines)
    if r.random() < 0.7:
        text += "\n"
    if r.random() < 0.1:
        text = "\n" + text
    if r.random() < 0.1:
        text = text.replace("\n", "\r\n")      # a list file saved with DOS line endings
    return text.encode(), files


ISDIR = b"\x00<a directory stands under this name>"


def run_tool(tool, lst, files, stale=False):
    d = tempfile.mkdtemp(prefix="c18.", dir=vlib.BUILD)
    try:
        for name, content in files.items():
            if content is ISDIR:
                os.makedirs(os.path.join(d, name))
            elif content is not None:
                open(os.path.join(d, name), "wb").write(content)
        open(os.path.join(d, "filelist.txt"), "wb").write(lst)
        if stale:
            # an older, longer README.md is in the way: the new one replaces it completely
            open(os.path.join(d, "README.md"), "wb").write(b"# stale README of an earlier run\n" * 3000)
        p = subprocess.run([tool, os.path.join(d, "filelist.txt")], stdout=subprocess.PIPE, stderr=subprocess.PIPE, timeout=60)
        readme = os.path.join(d, "README.md")
        if p.returncode == 0 and os.path.exists(readme):
            return "(write %s)" % hx(open(readme, "rb").read()), p.returncode
        if p.returncode != 0 and (stale or not os.path.exists(readme)):
            return "(fail)", p.returncode
        return "(inconsistent rc=%d readme=%s)" % (p.returncode, os.path.exists(readme)), p.returncode
    finally:
        shutil.rmtree(d, ignore_errors=True)


def oracle_input(lst, files):
    fs = " ".join("(%s %s)" % (hx(n.encode()), hx(c)) for n, c in files.items() if c is not None and c is not ISDIR)
    return "(c18.run %s (%s))" % (hx(lst), fs)


def run(ctx):
    ctx.ensure_oracle()
    tool = ctx.build_go("build_sample_md", srcdir=os.path.join(vlib.REPO, "cmd", "build_sample_md"),
                        out=os.path.join(vlib.BUILD, "build_sample_md"))
    ctx.assumptions += ASSUMPTIONS
    ctx.lake_build(["Folang.Props.C18"])
    ctx.audit(THEOREMS, ["Folang.Props.C18"])
    if ctx.tier == "thorough":
        ctx.leanchecker(["Folang.Props.C18"])
    r = random.Random(ctx.seed)
    cases = []
    # corpus: the repository's own sample list
    sd = os.path.join(vlib.REPO, "samples")
    lst = open(os.path.join(sd, "filelist.txt"), "rb").read()
    files = {}
    for ln in lst.decode().split("\n"):
        if ln:
            n = ln.split(" ", 1)[0]
            p = os.path.join(sd, n)
            files[n] = open(p, "rb").read() if os.path.exists(p) else None
    cases.append((lst, files))
    cases.append((b"", {}))
    cases.append((b"\n\n", {}))
    cases.append((b"only.fo", {"only.fo": b"x"}))
    cases.append((b"gone.fo Title\n", {"gone.fo": None}))
    cases.append((b"adir.fo Title\n", {"adir.fo": ISDIR}))
    cases.append((b"ok.fo One\nadir.fo Two\n", {"ok.fo": b"let a = 1\n", "adir.fo": ISDIR}))
    for _ in range(150 if ctx.tier == "quick" else 4000):
        cases.append(gen_case(r))
    ins, outs = [], []
    for lst, files in cases:
        ins.append(oracle_input(lst, files))
        o, rc = run_tool(tool, lst, files, stale=(len(ins) % 3 == 2))
        outs.append(o)
    exp = ctx.oracle(ins)
    info = {"cases": len(ins), "mismatches": 0}
    ctx.streams["c18.run"] = info
    mism = [(i, e, o) for i, e, o in zip(ins, exp or [], outs) if e != o]
    info["mismatches"] = len(mism)
    ctx.evaluations += len(ins)
    import hashlib
    for i, o in zip(ins, outs):
        ctx.distinct.add(hashlib.sha1(i.encode()).digest()[:10])
    ctx.stats["c18.run:write"] = sum(1 for o in outs if o.startswith("(write"))
    ctx.stats["c18.run:fail"] = sum(1 for o in outs if o == "(fail)")
    ctx.samples.append({"stream": "c18.run", "input": ins[5][:600], "impl": outs[5][:600]})
    ok = exp is not None and not mism
    ctx.obligations.append(("corr:c18.run", ok, "" if ok else "first mismatch input=%s" % (mism[0][0][:1500] if mism else "oracle failed")))
    if not ok:
        ctx.broken.append("corr:c18.run")
        for (i, e, o) in mism[:3]:
            # the model's answer is proved to be the documented README: mismatch = failing input
            ctx.direct.append({"kind": "README.md differs from the specified rendering", "input": i, "specified": e[:3000], "tool": o[:3000]})
    ctx.finish(rule="generated directories (0..12 entries, titles with spaces / markdown / %, entries without title, blank lines in the list, contents with fences, %, control bytes, no trailing newline, one unreadable entry - missing, or a directory under that name - in 20% of the cases) + the repository's samples/filelist.txt; the rebuilt tool's README.md bytes and exit status vs the model; distinct = distinct directories")


def replay(ctx, path):
    data = json.load(open(path))
    v = data.get("violation") or {}
    print("recorded:", json.dumps(v or data)[:3000])
    return 1
