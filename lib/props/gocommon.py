"""work directory for compiling emitted Go against /repo's runtime packages"""
import os, shutil, vlib

GOMOD = """module genprog

go 1.23

require (
	github.com/karino2/folang/pkg/buf v0.0.0
	github.com/karino2/folang/pkg/dict v0.0.0
	github.com/karino2/folang/pkg/frt v0.0.0
	github.com/karino2/folang/pkg/slice v0.0.0
	github.com/karino2/folang/pkg/strings v0.0.0
	github.com/karino2/folang/pkg/sys v0.0.0
)

require github.com/google/go-cmp v0.6.0 // indirect

replace github.com/karino2/folang/pkg/buf => REPO/pkg/buf

replace github.com/karino2/folang/pkg/dict => REPO/pkg/dict

replace github.com/karino2/folang/pkg/frt => REPO/pkg/frt

replace github.com/karino2/folang/pkg/slice => REPO/pkg/slice

replace github.com/karino2/folang/pkg/strings => REPO/pkg/strings

replace github.com/karino2/folang/pkg/sys => REPO/pkg/sys
"""


def workdir(name):
    wd = os.path.join(vlib.BUILD, name)
    shutil.rmtree(wd, ignore_errors=True)
    os.makedirs(wd)
    open(os.path.join(wd, "go.mod"), "w").write(GOMOD.replace("REPO", vlib.REPO))
    shutil.copy(os.path.join(vlib.REPO, "pkg", "slice", "go.sum"), wd)
    return wd


def fc_env(mode, args, extra=None):
    env = dict(os.environ, **{k: v for k, v in vlib.GOENV.items() if k.startswith("GO")})
    env.update(FC_VERIF=mode, FC_VERIF_ARGS=args, FC_VERIF_REPO=vlib.REPO, GOMAXPROCS="1")
    if extra:
        env.update(extra)
    return env
