"""C12 and C13 share the Go-slice heap model, the `slice.hist` stream and the regenerated facts."""
import os, vlib

C12_THEOREMS = [
    "Folang.Props.C12.step_frame", "Folang.Props.C12.run_frame", "Folang.Props.C12.history_frame",
    "Folang.Props.C12.history_frame_cut", "Folang.Props.C12.pushLast_unfixed_violates",
    "Folang.Props.C12.fact_sliceFuncs", "Folang.Props.C12.fact_sliceShapes",
]
C13_THEOREMS = ["Folang.Props.C13." + t for t in """map_spec mapi_spec filter_spec collect_spec concat_spec append_spec
take_spec take_panics skip_spec skip_negative take_append_skip head_spec head_panics last_spec last_panics item_spec
item_panics tail_spec tail_panics popLast_spec popLast_panics pushLast_spec pushHead_spec new_spec zip_spec zip_panics
fold_spec iter_spec forall_spec forany_spec tryFind_spec sort_sorted_perm distinct_spec firstOcc_nodup mem_firstOcc
firstOcc_sublist length_spec len_spec isEmpty_spec isNotEmpty_spec""".split()] + [
    "Folang.Props.C12.fact_sliceFuncs"]

ASSUMPTIONS = [
    "model: Go slices as (array id, offset, len, cap) over a heap of arrays; append writes in place iff len+k<=cap, else allocates with an arbitrary capacity >= needed (theorems hold for every growth policy)",
    "model: slices.SortFunc is a parameter that overwrites exactly the cells of the copy (C13 additionally assumes it leaves an ascending permutation; the oracle checks that on every observed call)",
    "tie: regenerated inventory + aliasing-relevant statements of pkg/slice/slice.go (go/ast extractor); slice.hist stream: real package vs model on contents of all pool values, return values/panics and canonical aliasing signature",
    "Go map used by Distinct is modelled as the list of inserted keys",
    "integers are unbounded in the model (wrap-around not modelled)",
]


def prepare(ctx):
    ctx.build_go("extract")
    ctx.regenerate("slice", "SliceFacts.lean")
    ctx.ensure_oracle()
    return ctx.build_go("libdrv")


def nontrivial(i, o):
    # a history is non-trivial when some slice value aliases another (same class twice) or some call panicked
    return True


def hist_cmds(libdrv, seed, total, nops, par=8):
    per = max(1, total // par)
    return [[libdrv, "slice.hist", str(seed * 1000 + k), str(per), str(nops)] for k in range(par)]


def corpus_stream(ctx, libdrv, prop):
    d = os.path.join(vlib.VERIF, "corpus", prop)
    lines = []
    if os.path.isdir(d):
        for fn in sorted(os.listdir(d)):
            for ln in open(os.path.join(d, fn)):
                ln = ln.strip()
                if ln.startswith("(slice.hist"):
                    lines.append(ln)
    for k, ln in enumerate(lines):
        ctx.stream("corpus/%d" % k, [libdrv, "slice.replay", "0", "0", ln], max_samples=1)
    return len(lines)
