"""Shared orchestration for /verif checks (python3, stdlib only).

One run of `./check Cxx <tier>`:
  1. build harness binaries from /repo's working tree (under /verif/build)
  2. regenerate lean/Folang/Generated/*.lean, `lake build` the property + fact modules, audit axioms
  3. run the correspondence streams (implementation vs oracle), diff
  4. collect direct property violations found by the harness (search); widen when 2/3 broke
  5. replay known findings
  6. write evidence/Cxx.json, print VIOLATION / KNOWN-FINDING lines, exit 0/1
"""
import fcntl, hashlib, json, os, re, shutil, subprocess, sys, time

VERIF = os.path.dirname(os.path.dirname(os.path.abspath(__file__)))
REPO = os.environ.get("VERIF_REPO", "/repo")
LEAN = os.path.join(VERIF, "lean")
BUILD = os.path.join(VERIF, "build")
ORACLE = os.path.join(LEAN, ".lake", "build", "bin", "oracle")
ALLOWED_AXIOMS = {"propext", "Classical.choice", "Quot.sound"}
FORBIDDEN = re.compile(r"\bsorry\b|\badmit\b|^axiom |native_decide|bv_decide|implemented_by|unsafe |maxHeartbeats 0")

GOENV = dict(os.environ, GOFLAGS="-mod=mod", GOPROXY="off", GOSUMDB="off", GOTOOLCHAIN="local",
             GOCACHE=os.environ.get("GOCACHE", os.path.join(BUILD, "gocache")))


def sh(cmd, cwd=None, env=None, timeout=None, inp=None):
    p = subprocess.run(cmd, cwd=cwd, env=env, timeout=timeout, input=inp, stdout=subprocess.PIPE,
                       stderr=subprocess.STDOUT, text=True, shell=isinstance(cmd, str))
    return p.returncode, p.stdout


class Lock:
    def __init__(self, name):
        os.makedirs(BUILD, exist_ok=True)
        self.path = os.path.join(BUILD, name + ".lock")

    def __enter__(self):
        self.f = open(self.path, "w")
        fcntl.flock(self.f, fcntl.LOCK_EX)

    def __exit__(self, *a):
        fcntl.flock(self.f, fcntl.LOCK_UN)
        self.f.close()


class Ctx:
    def __init__(self, prop, tier, seed):
        self.prop, self.tier, self.seed = prop, tier, seed
        self.t0 = time.time()
        self.obligations = []      # (name, ok, detail)
        self.streams = {}          # name -> dict
        self.violations = []       # dicts with replay path
        self.known_lines = []
        self.broken = []           # names of proof obligations / streams that no longer check
        self.direct = []           # direct violations found on the implementation (dicts)
        self.axioms = {}
        self.assumptions = []
        self.partial = []
        self.samples = []
        self.stats = {}
        self.evaluations = 0
        self.distinct = set()
        self.checker_cmds = []
        self.notes = []
        self.replay_n = 0
        os.makedirs(BUILD, exist_ok=True)
        os.makedirs(os.path.join(VERIF, "replays"), exist_ok=True)
        os.makedirs(os.path.join(VERIF, "evidence"), exist_ok=True)

    # ---------- builds
    def build_go(self, name, srcdir=None, out=None, extra=None, cwd=None):
        """go build a harness module living in /verif/harness/<name> (rebuilt on every run: it
        links /repo's working tree through `replace`)"""
        srcdir = srcdir or os.path.join(VERIF, "harness", name)
        out = out or os.path.join(BUILD, name)
        with Lock("go-" + name):
            if os.path.exists(out):
                os.remove(out)
            cmd = ["go", "build", "-o", out] + (extra or []) + ["."]
            rc, o = sh(cmd, cwd=cwd or srcdir, env=GOENV, timeout=600)
        if rc != 0:
            self.fail_infra("go build %s failed:\n%s" % (name, o))
        return out

    def build_overlay(self, name, pkgdir, drvdir, tags=None, replace=None):
        """build a `package main` of /repo with the driver files of `drvdir` injected by -overlay
        (every *.go there appears as zz_verif_<file> in the package; /repo is not touched)"""
        out = os.path.join(BUILD, name)
        ov = {"Replace": {}}
        for fn in sorted(os.listdir(drvdir)):
            if fn.endswith(".go"):
                ov["Replace"][os.path.join(pkgdir, "zz_verif_" + fn)] = os.path.join(drvdir, fn)
        if replace:
            ov["Replace"].update(replace)
        ovp = os.path.join(BUILD, name + ".overlay.json")
        with Lock("go-" + name):
            with open(ovp, "w") as f:
                json.dump(ov, f)
            if os.path.exists(out):
                os.remove(out)
            cmd = ["go", "build", "-overlay", ovp, "-o", out] + (["-tags", tags] if tags else []) + ["."]
            rc, o = sh(cmd, cwd=pkgdir, env=GOENV, timeout=600)
        if rc != 0:
            self.fail_infra("go build (overlay) %s failed:\n%s" % (name, o))
        return out

    def build_fcdrv(self):
        return self.build_overlay("fcdrv", os.path.join(REPO, "fc"), os.path.join(VERIF, "harness", "fcdrv"))

    def fail_infra(self, msg):
        # the implementation no longer builds with the harness: that is a broken tie, not a pass
        self.broken.append("build")
        self.notes.append(msg[-4000:])
        self.finish()

    def regenerate(self, kind, leanfile):
        """regenerate one Generated/*.lean from /repo (deleted first)"""
        ext = os.path.join(BUILD, "extract")
        path = os.path.join(LEAN, "Folang", "Generated", leanfile)
        rc, o = sh([ext, kind, REPO], timeout=120)
        with Lock("lake"):
            if rc != 0:
                # unparsable source: keep a file that fails the obligation rather than a stale one
                o = "-- extractor failed\nexample : False := by decide\n"
                self.notes.append("extract %s failed" % kind)
            old = open(path).read() if os.path.exists(path) else None
            if old != o:
                with open(path, "w") as f:
                    f.write(o)

    def lake_build(self, modules, label=None):
        """build Lean modules; each module is one obligation group"""
        allok = True
        with Lock("lake"):
            for m in modules:
                cmd = ["lake", "build", m]
                rc, o = sh(cmd, cwd=LEAN, timeout=3000)
                ok = rc == 0
                self.checker_cmds.append("cd lean && lake build " + m)
                self.obligations.append(("lean:" + m, ok, "" if ok else o[-3000:]))
                if not ok:
                    allok = False
                    self.broken.append("lean:" + m)
        return allok

    def ensure_oracle(self):
        with Lock("lake"):
            rc, o = sh(["lake", "build", "oracle"], cwd=LEAN, timeout=3000)
        if rc != 0:
            self.fail_infra("oracle build failed:\n" + o)

    def audit(self, theorems, imports):
        """#print axioms for every property theorem; fail on sorryAx or foreign axioms; grep sources"""
        os.makedirs(os.path.join(BUILD, "audit"), exist_ok=True)
        path = os.path.join(BUILD, "audit", self.prop + ".lean")
        with open(path, "w") as f:
            for i in imports:
                f.write("import %s\n" % i)
            for t in theorems:
                f.write("#print axioms %s\n" % t)
        with Lock("lake"):
            rc, o = sh(["lake", "env", "lean", path], cwd=LEAN, timeout=1200)
        self.checker_cmds.append("cd lean && lake env lean build/audit/%s.lean  (#print axioms x%d)" % (self.prop, len(theorems)))
        found = {}
        for m in re.finditer(r"'([^']+)' depends on axioms: \[([^\]]*)\]", o):
            found[m.group(1)] = [a.strip() for a in m.group(2).replace("\n", " ").split(",")]
        for m in re.finditer(r"'([^']+)' does not depend on any axioms", o):
            found[m.group(1)] = []
        for t in theorems:
            ax = found.get(t)
            ok = ax is not None and set(ax) <= ALLOWED_AXIOMS
            self.axioms[t] = ax
            self.obligations.append(("theorem:" + t, ok, "" if ok else "axioms=%s output=%s" % (ax, o[-1500:] if ax is None else "")))
            if not ok:
                self.broken.append("theorem:" + t)
        # source hygiene
        bad = []
        for root, _, files in os.walk(os.path.join(LEAN, "Folang")):
            for fn in files:
                if fn.endswith(".lean"):
                    txt = open(os.path.join(root, fn)).read()
                    txt = re.sub(r"/-.*?-/", "", txt, flags=re.S)
                    for ln in txt.split("\n"):
                        code = ln.split("--")[0]
                        if FORBIDDEN.search(code):
                            bad.append("%s: %s" % (fn, ln.strip()))
        ok = not bad
        self.obligations.append(("hygiene:no sorry/admit/axiom/native_decide/bv_decide/implemented_by/unsafe", ok, "; ".join(bad[:5])))
        if not ok:
            self.broken.append("hygiene")

    def leanchecker(self, modules):
        with Lock("lake"):
            for m in modules:
                rc, o = sh(["lake", "env", "leanchecker", m], cwd=LEAN, timeout=3000)
                ok = rc == 0
                self.checker_cmds.append("cd lean && lake env leanchecker " + m)
                self.obligations.append(("leanchecker:" + m, ok, "" if ok else o[-2000:]))
                if not ok:
                    self.broken.append("leanchecker:" + m)

    # ---------- streams
    def run_harness(self, cmd, timeout=3600, env=None, cwd=None):
        """run a harness command; returns (inputs, outputs, violations(list of dict), stats)"""
        # one OS thread per harness process: the drivers are single-threaded allocators and Go's
        # concurrent GC on 16 cores costs 10x in futex traffic; parallelism comes from several processes
        env = dict(env or os.environ)
        env.setdefault("GOMAXPROCS", "1")
        try:
            p = subprocess.run(cmd, stdout=subprocess.PIPE, stderr=subprocess.PIPE, text=True, timeout=timeout,
                               env=env, cwd=cwd, errors="replace")
        except subprocess.TimeoutExpired:
            self.notes.append("harness %s did not finish within %ds (FC_VERIF=%s)" % (cmd[:3], timeout, env.get("FC_VERIF", "")))
            return None
        ins, outs, vio, stats = [], [], [], {}
        for ln in p.stdout.split("\n"):
            if ln.startswith("I "):
                ins.append(ln[2:])
            elif ln.startswith("O "):
                outs.append(ln[2:])
            elif ln.startswith("V "):
                try:
                    vio.append(json.loads(ln[2:]))
                except Exception:
                    vio.append({"raw": ln[2:]})
            elif ln.startswith("S "):
                parts = ln.split(" ")
                if len(parts) == 3:
                    try:
                        stats[parts[1]] = stats.get(parts[1], 0) + int(parts[2])
                    except ValueError:
                        pass
        if p.returncode != 0 or len(ins) != len(outs):
            self.notes.append("harness %s rc=%s stderr=%s" % (cmd[:3], p.returncode, p.stderr[-1500:]))
            return None
        return ins, outs, vio, stats

    def oracle(self, inputs):
        p = subprocess.run([ORACLE], input="\n".join(inputs) + "\n", stdout=subprocess.PIPE, stderr=subprocess.PIPE,
                           text=True, timeout=3600)
        res = p.stdout.split("\n")
        if res and res[-1] == "":
            res.pop()
        if p.returncode != 0 or len(res) != len(inputs):
            self.notes.append("oracle failed rc=%s got %d lines for %d inputs: %s" % (p.returncode, len(res), len(inputs), p.stderr[-500:]))
            return None
        return res

    def stream(self, name, cmd, nontrivial=None, timeout=3600, env=None, cwd=None, max_samples=3):
        """run one correspondence stream; returns list of mismatches [(input, oracle, impl)]"""
        r = self.run_harness(cmd, timeout=timeout, env=env, cwd=cwd)
        info = {"cases": 0, "mismatches": 0, "direct_violations": 0}
        self.streams[name] = info
        if r is None:
            self.obligations.append(("corr:" + name, False, "harness failed"))
            self.broken.append("corr:" + name)
            return []
        ins, outs, vio, stats = r
        exp = self.oracle(ins) if ins else []
        if exp is None:
            self.obligations.append(("corr:" + name, False, "oracle failed"))
            self.broken.append("corr:" + name)
            return []
        # an oracle answer "(outside-fragment <construct>)" means the input is outside the modelled
        # fragment of that stream: counted, never compared
        outside = [e for e in exp if e.startswith("(outside-fragment")]
        for e in outside:
            k = name.split("/")[0] + ":outside-fragment." + e[len("(outside-fragment"):].strip(" )")
            self.stats[k] = self.stats.get(k, 0) + 1
        mism = [(i, e, o) for i, e, o in zip(ins, exp, outs) if e != o and not e.startswith("(outside-fragment")]
        info.update(cases=len(ins), mismatches=len(mism), direct_violations=len(vio))
        if outside:
            info["outside_fragment"] = len(outside)
        self.evaluations += len(ins)
        for i, o in zip(ins, outs):
            if nontrivial is None or nontrivial(i, o):
                self.distinct.add(hashlib.sha1(i.encode()).digest()[:10])
        for k, v in stats.items():
            self.stats[name + ":" + k] = self.stats.get(name + ":" + k, 0) + v
        for i, o in list(zip(ins, outs))[:max_samples]:
            self.samples.append({"stream": name, "input": i[:1500], "impl": o[:1500]})
        ok = not mism
        self.obligations.append(("corr:" + name, ok, "" if ok else "first mismatch input=%s" % mism[0][0][:2000]))
        if not ok:
            self.broken.append("corr:" + name)
        for v in vio:
            v.setdefault("stream", name)
            self.direct.append(v)
        info["_mism"] = mism
        return mism

    def stream_parallel(self, name, cmds, **kw):
        """run several harness commands concurrently and merge them into one stream"""
        from concurrent.futures import ThreadPoolExecutor
        # NB: in this sandbox concurrent allocation-heavy Go processes slow each other down badly
        # (page-fault cost), so fc-driver streams pass par=1
        with ThreadPoolExecutor(max_workers=min(kw.get("par", 16), len(cmds))) as ex:
            rs = list(ex.map(lambda c: self.run_harness(c, timeout=kw.get("timeout", 3600), env=kw.get("env"), cwd=kw.get("cwd")), cmds))
        info = {"cases": 0, "mismatches": 0, "direct_violations": 0, "_mism": []}
        self.streams[name] = info
        if any(r is None for r in rs):
            self.obligations.append(("corr:" + name, False, "harness failed"))
            self.broken.append("corr:" + name)
            return []
        ins = [x for r in rs for x in r[0]]
        outs = [x for r in rs for x in r[1]]
        vio = [x for r in rs for x in r[2]]
        exp = self.oracle(ins) if ins else []
        if exp is None:
            self.obligations.append(("corr:" + name, False, "oracle failed"))
            self.broken.append("corr:" + name)
            return []
        mism = [(i, e, o) for i, e, o in zip(ins, exp, outs) if e != o]
        info.update(cases=len(ins), mismatches=len(mism), direct_violations=len(vio), _mism=mism)
        self.evaluations += len(ins)
        nt = kw.get("nontrivial")
        for i, o in zip(ins, outs):
            if nt is None or nt(i, o):
                self.distinct.add(hashlib.sha1(i.encode()).digest()[:10])
        for r in rs:
            for k, v in r[3].items():
                self.stats[name + ":" + k] = self.stats.get(name + ":" + k, 0) + v
        for i, o in list(zip(ins, outs))[:kw.get("max_samples", 2)]:
            self.samples.append({"stream": name, "input": i[:1500], "impl": o[:1500]})
        ok = not mism
        self.obligations.append(("corr:" + name, ok, "" if ok else "first mismatch input=%s" % mism[0][0][:2000]))
        if not ok:
            self.broken.append("corr:" + name)
        for v in vio:
            v.setdefault("stream", name)
            self.direct.append(v)
        return mism

    # ---------- verdict
    def known_findings(self):
        path = os.path.join(VERIF, "known_findings.json")
        if not os.path.exists(path):
            return []
        return [k for k in json.load(open(path)) if k.get("property") == self.prop]

    def write_replay(self, data):
        self.replay_n += 1
        path = os.path.join(VERIF, "replays", "%s-%d-%d.json" % (self.prop, self.seed, self.replay_n))
        data = dict(data, property=self.prop, seed=self.seed, tier=self.tier)
        with open(path, "w") as f:
            json.dump(data, f, indent=1)
        return path

    def report_violation(self, data, found_input=True):
        path = self.write_replay(dict(data, kind="counterexample" if found_input else "no-failing-input-found"))
        line = "VIOLATION property=%s replay=%s" % (self.prop, path)
        if not found_input:
            line += " no-failing-input-found"
        self.violations.append(line)

    def known_line(self, what):
        self.known_lines.append("KNOWN-FINDING: property=%s %s" % (self.prop, what))

    def finish(self, level="proof", rule="", extra_cov=None):
        # direct violations not matching a known finding are violations with a concrete replay
        # (callers filter known findings before appending to self.direct)
        for v in self.direct[:5]:
            self.report_violation({"violation": v}, found_input=True)
        if self.broken and not self.direct:
            mism = []
            for n, s in self.streams.items():
                for (i, e, o) in s.get("_mism", [])[:2]:
                    mism.append({"stream": n, "input": i, "oracle": e, "impl": o})
            self.report_violation({"no_longer_checks": sorted(set(self.broken)),
                                   "details": [(n, d) for (n, ok, d) in self.obligations if not ok][:6],
                                   "mismatches": mism[:4], "notes": self.notes[-3:]}, found_input=False)
        n_ob = len(self.obligations)
        n_ok = sum(1 for (_, ok, _) in self.obligations if ok)
        cov = {
            "obligations": max(n_ob, 1), "discharged": n_ok,
            "checker_cmd": "; ".join(dict.fromkeys(self.checker_cmds)) or "none run",
            "trusted_base": ["Lean 4.33.0 kernel", "axioms: " + ", ".join(sorted({a for ax in self.axioms.values() if ax for a in ax}) or ["none"])] + self.assumptions,
            "evaluations": self.evaluations, "distinct_nontrivial": len(self.distinct),
            "rule": rule, "samples": self.samples[:8] or [{"note": "no stream ran"}],
            "obligation_list": [{"name": n, "ok": ok} for (n, ok, _) in self.obligations],
            "axioms_per_theorem": self.axioms,
            "streams": {k: {kk: vv for kk, vv in v.items() if not kk.startswith("_")} for k, v in self.streams.items()},
            "distribution": self.stats, "partial": self.partial,
            "known_findings_replayed": self.known_lines, "notes": self.notes[-5:],
        }
        if extra_cov:
            cov.update(extra_cov)
        ev = {"property_id": self.prop, "tier": self.tier, "seed": self.seed, "level": level, "coverage": cov,
              "assumptions": self.assumptions, "wall_s": round(time.time() - self.t0, 2),
              "violations": len(self.violations)}
        with open(os.path.join(VERIF, "evidence", self.prop + ".json"), "w") as f:
            json.dump(ev, f, indent=1)
        for l in self.known_lines:
            print(l)
        for l in self.violations:
            print(l)
        print("%s %s: obligations %d/%d, cases %d, distinct %d, violations %d, %.1fs" % (
            self.prop, self.tier, n_ok, n_ob, self.evaluations, len(self.distinct), len(self.violations), time.time() - self.t0))
        sys.stdout.flush()
        sys.exit(1 if self.violations else 0)
